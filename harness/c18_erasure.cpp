// C18: type-erased senders and functions behave like what they wrap.
//   pipelines : every static shape x leaf channel x timing is run un-erased, wrapped in unique_any_sender and in any_sender
//               (the copy and the original connected independently); the completion records must be identical
//   function  : random op sequences (assign, copy, move, swap, reset, invoke, empty test) on function / unique_function slots
//               holding tracked callables of 1..256 bytes against a reference model of logical objects
//   sender    : the same for any_sender / unique_any_sender slots (assign, copy, move, reset, connect+start, empty test)
//   selfref   : a small callable that is not trivially relocatable (separate scenario class)
#include "common/static_shapes.hpp"

#include <pika/functional/function.hpp>
#include <pika/functional/unique_function.hpp>

#include <optional>

using namespace verif;
using namespace vs;

static void vio(std::string const& what, std::string const& detail) { report.violation("C18:" + what, detail); }

// ---------------------------------------------------------------------------------- tracked callables
struct call_ledger
{
    static inline std::atomic<long> live{0}, constructed{0}, destroyed{0}, double_destroy{0}, used_dead{0};
};

template <std::size_t Pad, bool Copyable>
struct tcall
{
    int id = 0;
    int calls = 0;    // per-instance call state: copies must be independent
    std::uint32_t magic = 0xCA11;
    unsigned char pad[Pad] = {};
    explicit tcall(int i)
      : id(i)
    {
        ++call_ledger::live;
        ++call_ledger::constructed;
        for (std::size_t k = 0; k < Pad; ++k) pad[k] = (unsigned char) (i + k);
    }
    tcall(tcall&& o) noexcept
      : id(o.id)
      , calls(o.calls)
    {
        if (o.magic != 0xCA11) ++call_ledger::used_dead;
        ++call_ledger::live;
        ++call_ledger::constructed;
        std::memcpy(pad, o.pad, Pad);
    }
    tcall(tcall const& o) requires Copyable
      : id(o.id)
      , calls(o.calls)
    {
        if (o.magic != 0xCA11) ++call_ledger::used_dead;
        ++call_ledger::live;
        ++call_ledger::constructed;
        std::memcpy(pad, o.pad, Pad);
    }
    tcall& operator=(tcall const&) = delete;
    ~tcall()
    {
        if (magic != 0xCA11) ++call_ledger::double_destroy;
        magic = 0xDEAD;
        --call_ledger::live;
        ++call_ledger::destroyed;
    }
    int operator()(int x)
    {
        if (magic != 0xCA11) ++call_ledger::used_dead;
        for (std::size_t k = 0; k < Pad; ++k)
            if (pad[k] != (unsigned char) (id + k)) return -999999;    // payload corrupted
        ++calls;
        if (x == -1) throw verr(id);
        return id * 1000 + calls * 10 + x;
    }
};

struct mcall    // model of one logical callable instance
{
    int id;
    int calls;
};

static std::atomic<std::uint64_t> g_fn_ops{0}, g_fn_invocations{0}, g_fn_empty_calls{0}, g_fn_throws{0}, g_inline_objs{0}, g_heap_objs{0}, g_swaps{0}, g_copies{0},
    g_moves{0};

template <typename Fn, bool Copyable>
static void function_history(std::uint64_t seed, int nops, char const* name)
{
    rng r(seed);
    constexpr int N = 5;
    std::vector<Fn> f(N);
    std::vector<std::optional<mcall>> m(N);
    int next_id = 1;
    auto fail = [&](std::string const& what, int op) {
        vio(std::string("function:") + what.substr(0, what.find('(')) + ":" + name, sf("op %d of a random history on %s slots: %s", op, name, what.c_str()));
    };
    for (int n = 0; n < nops; ++n)
    {
        int i = (int) r.below(N), j = (int) r.below(N);
        int op = (int) r.below(9);
        ++g_fn_ops;
        switch (op)
        {
        case 0:    // assign a fresh callable of random size
        {
            int id = next_id++;
            switch (r.below(5))
            {
            case 0: f[i] = tcall<1, Copyable>(id); ++g_inline_objs; break;
            case 1: f[i] = tcall<8, Copyable>(id); ++g_inline_objs; break;
            case 2: f[i] = tcall<12, Copyable>(id); ++g_inline_objs; break;    // 24 bytes: the inline limit
            case 3: f[i] = tcall<40, Copyable>(id); ++g_heap_objs; break;
            default: f[i] = tcall<250, Copyable>(id); ++g_heap_objs; break;
            }
            m[i] = mcall{id, 0};
            break;
        }
        case 1:    // copy
            if constexpr (Copyable)
            {
                if (i == j) break;
                f[i] = f[j];
                m[i] = m[j];
                ++g_copies;
            }
            break;
        case 2:    // move assign
            if (i == j) break;
            f[i] = std::move(f[j]);
            m[i] = m[j];
            m[j].reset();
            ++g_moves;
            break;
        case 3:    // move construct into a temporary and back (vector growth pattern)
        {
            Fn tmp(std::move(f[i]));
            if (!f[i].empty()) fail("moved-from-not-empty", n);
            f[i] = std::move(tmp);
            ++g_moves;
            break;
        }
        case 4:
            f[i].swap(f[j]);
            std::swap(m[i], m[j]);
            ++g_swaps;
            break;
        case 5:
            f[i].reset();
            m[i].reset();
            break;
        case 6:    // copy construct, use the copy, drop it: the original must not see the copy's calls
            if constexpr (Copyable)
            {
                Fn c(f[i]);
                if (c.empty() != !m[i].has_value()) fail("copy-emptiness", n);
                if (m[i])
                {
                    int got = c(3), want = m[i]->id * 1000 + (m[i]->calls + 1) * 10 + 3;
                    if (got != want) fail(sf("copy-result(got %d, want %d)", got, want), n);
                }
                ++g_copies;
            }
            break;
        default:    // invoke
        {
            bool throws = r.chance(1, 8);
            int arg = throws ? -1 : (int) r.below(7);
            if (!m[i])
            {
                ++g_fn_empty_calls;
                bool ok = false;
                try
                {
                    f[i](arg);
                }
                catch (pika::exception const& e)
                {
                    ok = e.get_error() == pika::error::bad_function_call;
                }
                catch (...)
                {
                }
                if (!ok) fail("empty-call-not-reported", n);
                break;
            }
            ++g_fn_invocations;
            try
            {
                int got = f[i](arg);
                m[i]->calls++;
                int want = m[i]->id * 1000 + m[i]->calls * 10 + arg;
                if (throws) fail("throwing-callable-returned", n);
                else if (got != want) fail(sf("result(got %d, want %d)", got, want), n);
            }
            catch (verr const& e)
            {
                m[i]->calls++;
                ++g_fn_throws;
                if (!throws || e.code != m[i]->id) fail("wrong-exception", n);
            }
            break;
        }
        }
        for (int k = 0; k < N; ++k)
            if (f[k].empty() == m[k].has_value() || static_cast<bool>(f[k]) != m[k].has_value())
            {
                fail("emptiness", n);
                break;
            }
    }
}

// ---------------------------------------------------------------------------------- erased senders: op sequences
static std::atomic<std::uint64_t> g_snd_ops{0}, g_snd_connects{0}, g_snd_empty_connects{0};

static outcome run_now(std::shared_ptr<record> rec)
{
    // inline leaves complete inside start(); others need the runtime - wait by polling from this plain thread
    // no short deadline here: on a loaded machine a std::thread leaf can take long; only a pipeline that has not completed
    // after two minutes is reported (as channel -1), everything else is judged on what it completed with
    auto const t0 = std::chrono::steady_clock::now();
    for (std::uint64_t i = 0; !rec->done.load(); ++i)
    {
        if (i < 2000) continue;
        std::this_thread::sleep_for(std::chrono::microseconds(50));
        if ((i & 4095) == 0 && std::chrono::steady_clock::now() - t0 > std::chrono::seconds(120)) return {-1, 0};
    }
    return {rec->channel.load(), rec->value.load()};
}

static void sender_history(std::uint64_t seed, int nops)
{
    rng r(seed);
    constexpr int N = 4;
    std::vector<ex::any_sender<tv>> a(N);
    std::vector<ex::unique_any_sender<tv>> u(N);
    std::vector<std::optional<outcome>> ma(N), mu(N);
    auto fail = [&](std::string const& what, int op) {
        vio("sender-history:" + what.substr(0, what.find('(')), sf("op %d of a random history on any_sender/unique_any_sender slots: %s", op, what.c_str()));
    };
    for (int n = 0; n < nops; ++n)
    {
        int i = (int) r.below(N), j = (int) r.below(N);
        int op = (int) r.below(10);
        ++g_snd_ops;
        int v = 1 + (int) r.below(90);
        int c = (int) r.below(3);
        int t = r.chance(1, 3) ? t_pool : t_inline;
        outcome lo{c, c == c_stopped ? 0 : v};
        switch (op)
        {
        case 0:
            a[i] = leaf_sender{v, c, t};
            ma[i] = lo;
            break;
        case 1:
            u[i] = leaf_sender{v, c, t} | ex::then([](tv x) { return tv(x.get() + 1); });
            mu[i] = c == c_value ? outcome{c_value, v + 1} : lo;
            break;
        case 2:    // copy any_sender
            if (i != j)
            {
                a[i] = a[j];
                ma[i] = ma[j];
            }
            break;
        case 3:    // move
            if (i != j)
            {
                a[i] = std::move(a[j]);
                ma[i] = ma[j];
                ma[j].reset();
                if (!a[j].empty()) fail("moved-from-any_sender-not-empty", n);
            }
            break;
        case 4:
            if (i != j)
            {
                u[i] = std::move(u[j]);
                mu[i] = mu[j];
                mu[j].reset();
                if (!u[j].empty()) fail("moved-from-unique_any_sender-not-empty", n);
            }
            break;
        case 5:    // any_sender -> unique_any_sender
            u[i] = std::move(a[j]);
            mu[i] = ma[j];
            ma[j].reset();
            if (!a[j].empty()) fail("any_sender-not-empty-after-conversion", n);
            break;
        case 6:
            a[i].reset();
            ma[i].reset();
            break;
        case 7:    // connect a copy of an any_sender: the original stays usable
        {
            ++g_snd_connects;
            if (!ma[i])
            {
                ++g_snd_empty_connects;
                bool ok = false;
                try
                {
                    auto cp = a[i];
                    auto rec = run_recorded<tv>(std::move(cp));
                    (void) rec;
                }
                catch (pika::exception const& e)
                {
                    ok = e.get_error() == pika::error::bad_function_call;
                }
                catch (...)
                {
                }
                if (!ok) fail("empty-connect-not-reported", n);
                break;
            }
            auto cp = a[i];
            outcome got = run_now(run_recorded<tv>(std::move(cp)));
            if (got != *ma[i]) fail(sf("copy-completion(got %s, want %s)", show(got).c_str(), show(*ma[i]).c_str()), n);
            break;
        }
        default:    // connect a unique_any_sender (consumes it)
        {
            ++g_snd_connects;
            if (!mu[i])
            {
                ++g_snd_empty_connects;
                bool ok = false;
                try
                {
                    auto rec = run_recorded<tv>(std::move(u[i]));
                    (void) rec;
                }
                catch (pika::exception const& e)
                {
                    ok = e.get_error() == pika::error::bad_function_call;
                }
                catch (...)
                {
                }
                if (!ok) fail("empty-connect-not-reported", n);
                break;
            }
            outcome got = run_now(run_recorded<tv>(std::move(u[i])));
            if (got != *mu[i]) fail(sf("completion(got %s, want %s)", show(got).c_str(), show(*mu[i]).c_str()), n);
            mu[i].reset();
            if (!u[i].empty()) fail("connected-unique_any_sender-not-empty", n);
            break;
        }
        }
        for (int k = 0; k < N; ++k)
            if (a[k].empty() == ma[k].has_value() || u[k].empty() == mu[k].has_value())
            {
                fail("emptiness", n);
                break;
            }
    }
}

// ---------------------------------------------------------------------------------- pipelines side by side
static std::atomic<std::uint64_t> g_side_by_side{0};
static void pipelines(std::uint64_t count, rng& r)
{
    for (std::uint64_t n = 0; n < count; ++n)
    {
        int id = (int) (n % N_SHAPES);
        int c = (int) r.below(3), t = (int) r.below(3), v = 1 + (int) r.below(40), k = 1 + (int) r.below(9);
        leaf_sender leaf{v, c, t};
        outcome lo{c, c == c_stopped ? 0 : v};
        outcome want = shape_ref(id, lo, k);
        std::shared_ptr<record> plain, uniq, any1, any2;
        with_shape(id, leaf, k, [&](auto&& s) { plain = run_recorded<tv>(std::move(s)); });
        with_shape(id, leaf, k, [&](auto&& s) { uniq = run_recorded<tv>(ex::unique_any_sender<tv>(std::move(s))); });
        // the copyable wrapper needs an l-value connectable sender (several adaptors refuse that at compile time): it is
        // compared on the leaf and then() shapes
        auto with_any = [&](auto snd) {
            ex::any_sender<tv> as(std::move(snd));
            ex::any_sender<tv> cp = as;    // copies of a copyable wrapper are independent
            any1 = run_recorded<tv>(std::move(as));
            any2 = run_recorded<tv>(std::move(cp));
        };
        if (id == 0) with_any(leaf);
        else if (id == 1) with_any(leaf | ex::then([k](tv x) { return tv(x.get() * 3 + k); }));
        else if (id == 2)
            with_any(leaf | ex::then([k](tv x) -> tv {
                (void) x;
                throw verr(k);
            }));
        for (auto* rp : {&plain, &uniq, &any1, &any2})
        {
            if (!*rp) continue;
            outcome got = run_now(*rp);
            char const* which = rp == &plain ? "un-erased" : (rp == &uniq ? "unique_any_sender" : (rp == &any1 ? "any_sender" : "any_sender copy"));
            if ((*rp)->signals.load() != 1 || got != want)
                vio(std::string("pipeline:") + (rp == &plain ? "un-erased" : "erased-differs"),
                    sf("shape %d on leaf %s timing %d k=%d through %s completed with %s (%d signals), reference %s", id, show(lo).c_str(), t, k, which, show(got).c_str(),
                        (*rp)->signals.load(), show(want).c_str()));
        }
        ++g_side_by_side;
    }
}

// ---------------------------------------------------------------------------------- self-referential small callable
struct selfref
{
    int value = 7;
    int* p = &value;    // points into the object itself: not trivially relocatable
    selfref() = default;
    selfref(selfref const& o)
      : value(o.value)
      , p(&value)
    {
    }
    selfref(selfref&& o) noexcept
      : value(o.value)
      , p(&value)
    {
    }
    int operator()(int) const { return p == &value ? value : -1; }
};

int main(int argc, char** argv)
{
    args_t a(argc, argv);
    report.property = "C18";
    runtime_cfg cfg;
    cfg.scheduler = a.str("scheduler", "local-priority-fifo");
    cfg.threads = (unsigned) a.u64("threads", 4);
    cfg.bind_none = !a.has("bind");
    std::string mode = a.str("mode", "function");
    std::uint64_t count = a.u64("count", 2000);
    install_hooks();
    report.cases = count;
    auto wd_alive = std::make_shared<std::atomic<bool>>(true);
    start_progress_watchdog([] { return g_fn_ops.load() + g_snd_ops.load() + g_side_by_side.load() + g_fn_invocations.load(); }, 60, "C18:stuck:" + mode,
        [] { return sf("%llu function operations, %llu sender operations, %llu pipelines so far; the operation in progress never returned", (unsigned long long) g_fn_ops.load(),
                 (unsigned long long) g_snd_ops.load(), (unsigned long long) g_side_by_side.load()); }, wd_alive);
    {
        runtime rt(cfg);
        rng r(g_seed);
        if (mode == "function")
        {
            for (std::uint64_t h = 0; h < count; ++h)
            {
                using pika::util::detail::function;
                using pika::util::detail::unique_function;
                if (h & 1) function_history<function<int(int)>, true>(r.next(), 5 + (int) r.below(120), "function");
                else function_history<unique_function<int(int)>, false>(r.next(), 5 + (int) r.below(120), "unique_function");
            }
        }
        else if (mode == "sender")
            for (std::uint64_t h = 0; h < count; ++h) sender_history(r.next(), 5 + (int) r.below(60));
        else if (mode == "pipelines") pipelines(count, r);
        else if (mode == "selfref")
        {
            using pika::util::detail::function;
            function<int(int)> f = selfref{};
            int direct = selfref{}(0);
            function<int(int)> g(std::move(f));
            std::vector<function<int(int)>> vec;
            vec.push_back(selfref{});
            for (int i = 0; i < 10; ++i) vec.push_back(selfref{});    // growth relocates the wrappers
            function<int(int)> h2 = selfref{}, h3 = selfref{};
            h2.swap(h3);
            bool bad = g(0) != direct || vec[0](0) != direct || h2(0) != direct;
            if (bad)
                vio("inline-memcpy-relocation", sf("a small callable holding a pointer to its own member returns %d directly but %d / %d / %d after its wrapper was move-constructed / "
                                                   "relocated by vector growth / swapped",
                                                direct, g(0), vec[0](0), h2(0)));
            report.add("selfref_checks", 3);
            report.bit("selfref", 1);
        }
        pika::wait();
        for (int i = 0; i < 100000 && g_external_busy.load() != 0; ++i) std::this_thread::sleep_for(std::chrono::microseconds(50));
        if (call_ledger::live.load() != 0)
            vio("ledger:callable-live", sf("%ld wrapped callables alive after every wrapper was destroyed (constructed %ld, destroyed %ld)", call_ledger::live.load(),
                                           call_ledger::constructed.load(), call_ledger::destroyed.load()));
        if (call_ledger::double_destroy.load()) vio("ledger:callable-double-destroy", sf("%ld wrapped callables destroyed twice", call_ledger::double_destroy.load()));
        if (call_ledger::used_dead.load()) vio("ledger:callable-use-after-destroy", sf("%ld uses of destroyed callables", call_ledger::used_dead.load()));
        if (tv::live.load() != 0) vio("ledger:value-live", sf("%ld tracked values alive at the end", tv::live.load()));
        if (tv::double_destroy.load() || tv::used_dead.load()) vio("ledger:value-double-destroy", "tracked value destroyed twice / used after destruction");
        report.add("function_ops", g_fn_ops.load());
        report.add("function_invocations", g_fn_invocations.load());
        report.add("sender_ops", g_snd_ops.load());
        report.add("sender_connects", g_snd_connects.load());
        report.add("pipelines_side_by_side", g_side_by_side.load());
        report.add("callables_constructed", call_ledger::constructed.load());
        report.bit("inline_callable", g_inline_objs.load());
        report.bit("heap_callable", g_heap_objs.load());
        report.bit("empty_call", g_fn_empty_calls.load() + g_snd_empty_connects.load());
        report.bit("throwing_call", g_fn_throws.load());
        report.bit("swap", g_swaps.load());
        report.bit("copy", g_copies.load());
        report.bit("move", g_moves.load());
        report.bit("erased_pipeline", g_side_by_side.load());
        report.bit("sender_history", g_snd_ops.load());
        std::string sig = mode + "|";
        for (auto& kv : report.bits) sig += kv.second ? "1" : "0";
        report.signature(sig);
        report.sample(sf("{\"mode\":\"%s\",\"count\":%lu,\"function_ops\":%lu,\"sender_ops\":%lu,\"pipelines\":%lu}", mode.c_str(), (unsigned long) count, (unsigned long) g_fn_ops.load(),
            (unsigned long) g_snd_ops.load(), (unsigned long) g_side_by_side.load()));
    }
    *wd_alive = false;
    report.emit();
    return 0;
}
