// Probe used by the C15 (binding) and C16 (configuration precedence) drivers: starts the real runtime with pika::init and
// prints, from inside the running runtime, what the runtime actually uses.  No hooks, no oracle here - the Python driver
// decides.  Environment: VERIF_POOLS="policy:count,..." creates extra pools through the resource partitioner;
// VERIF_OS_AFFINITY=1 additionally reports every worker's sched_getaffinity (real topology only).
#include <pika/execution.hpp>
#include <pika/init.hpp>
#include <pika/latch.hpp>
#include <pika/modules/program_options.hpp>
#include <pika/modules/resource_partitioner.hpp>
#include <pika/modules/topology.hpp>
#include <pika/resource_partitioner/detail/partitioner.hpp>
#include <pika/runtime.hpp>
#include <pika/thread.hpp>

#include <cstdio>
#include <cstdlib>
#include <memory>
#include <mutex>
#include <sstream>
#include <string>
#include <vector>

#include <sched.h>

namespace ex = pika::execution::experimental;

static std::vector<std::pair<int, unsigned>> g_extra;
static int g_argc;
static char** g_argv;

static std::string jesc(std::string const& s)
{
    std::string o;
    for (unsigned char c : s)
    {
        if (c == '"' || c == '\\')
        {
            o += '\\';
            o += (char) c;
        }
        else if (c < 0x20)
        {
            char b[8];
            std::snprintf(b, sizeof b, "\\u%04x", c);
            o += b;
        }
        else o += (char) c;
    }
    return o;
}

static std::string g_vm_json;

static int entry(int argc, char** argv)
{
    std::ostringstream o;
    auto& rp = pika::resource::get_partitioner();
    std::size_t n = pika::get_num_worker_threads();
    o << "@@PROBE {\"workers\":" << n << ",\"entry_argv\":[";
    for (int i = 0; i < argc; ++i) o << (i ? "," : "") << '"' << jesc(argv[i]) << '"';
    o << "],\"pools\":[";
    std::size_t np = pika::resource::get_num_thread_pools();
    for (std::size_t p = 0; p < np; ++p)
    {
        auto& pool = pika::resource::get_thread_pool(p);
        o << (p ? "," : "") << "{\"name\":\"" << pool.get_pool_name() << "\",\"index\":" << pool.get_pool_index() << ",\"size\":" << pool.get_os_thread_count()
          << ",\"offset\":" << pool.get_thread_offset() << ",\"scheduler\":\"" << pool.get_scheduler()->get_description() << "\"}";
    }
    o << "],\"pu\":[";
    for (std::size_t i = 0; i < n; ++i)
    {
        auto mask = rp.get_pu_mask(i);
        o << (i ? "," : "") << "{\"w\":" << i << ",\"pu_num\":" << rp.get_pu_num(i) << ",\"mask\":\"" << pika::threads::detail::to_string(mask) << "\",\"bits\":[";
        bool first = true;
        for (std::size_t b = 0; b < pika::threads::detail::mask_size(mask); ++b)
            if (pika::threads::detail::test(mask, b))
            {
                o << (first ? "" : ",") << b;
                first = false;
            }
        o << "]}";
    }
    o << "]";
    // default task stack: configured size and how much of it is available at task entry
    {
        std::ptrdiff_t conf = pika::this_thread::get_stack_size();
        o << ",\"entry_stack_size\":" << conf;
        std::ptrdiff_t small = 0, medium = 0, large = 0, huge = 0;
        auto* sb = pika::resource::get_thread_pool("default").get_scheduler();
        small = sb->get_stack_size(pika::execution::thread_stacksize::small_);
        medium = sb->get_stack_size(pika::execution::thread_stacksize::medium);
        large = sb->get_stack_size(pika::execution::thread_stacksize::large);
        huge = sb->get_stack_size(pika::execution::thread_stacksize::huge);
        o << ",\"stacks\":{\"small\":" << small << ",\"medium\":" << medium << ",\"large\":" << large << ",\"huge\":" << huge << "}";
        // measured: a default (small) task reports its own size
        pika::latch l(2);
        std::ptrdiff_t seen = 0, avail = 0;
        ex::execute(ex::thread_pool_scheduler{}, [&] {
            seen = pika::this_thread::get_stack_size();
            avail = pika::this_thread::get_available_stack_space();
            l.count_down(1);
        });
        l.arrive_and_wait();
        o << ",\"task_stack_size\":" << seen << ",\"task_stack_available\":" << avail;
        // measured per stack-size class: a task of that class reports its size and touches the far end of its stack
        struct m_t
        {
            pika::latch l{5};
            std::ptrdiff_t size[4] = {0, 0, 0, 0}, avail[4] = {0, 0, 0, 0};
            int touched[4] = {0, 0, 0, 0};
        };
        auto ms = std::make_shared<m_t>();
        pika::execution::thread_stacksize cls[4] = {pika::execution::thread_stacksize::small_, pika::execution::thread_stacksize::medium,
            pika::execution::thread_stacksize::large, pika::execution::thread_stacksize::huge};
        for (int i = 0; i < 4; ++i)
            ex::execute(ex::with_stacksize(ex::thread_pool_scheduler{}, cls[i]), [ms, i] {
                ms->size[i] = pika::this_thread::get_stack_size();
                std::ptrdiff_t a = pika::this_thread::get_available_stack_space();
                ms->avail[i] = a;
                // walk down the stack page by page, staying 3 pages clear of the reported end
                if (a > 4 * 4096)
                {
                    std::size_t n = (std::size_t) a - 3 * 4096;
                    char volatile* p = (char volatile*) __builtin_alloca(n);
                    for (std::size_t k = 0; k < n; k += 4096) p[k] = 1;
                    p[n - 1] = 1;
                    ms->touched[i] = 1;
                }
                ms->l.count_down(1);
            });
        ms->l.arrive_and_wait();
        o << ",\"measured\":{";
        char const* nm[4] = {"small", "medium", "large", "huge"};
        for (int i = 0; i < 4; ++i)
            o << (i ? "," : "") << '"' << nm[i] << "\":{\"size\":" << ms->size[i] << ",\"available\":" << ms->avail[i] << ",\"touched\":" << ms->touched[i] << "}";
        o << "}";
    }
    // selected configuration entries
    {
        auto const& cfg = pika::detail::get_config();
        o << ",\"ini\":{";
        char const* keys[] = {"pika.os_threads", "pika.scheduler", "pika.bind", "pika.process_mask", "pika.stacks.small_size", "pika.stacks.medium_size", "pika.stacks.large_size",
            "pika.stacks.huge_size", "pika.verif.custom", "pika.max_idle_loop_count", "pika.max_busy_loop_count", "pika.thread_queue.max_thread_count", "pika.shutdown_check_count"};
        bool first = true;
        for (auto k : keys)
        {
            o << (first ? "" : ",") << '"' << k << "\":\"" << jesc(cfg.get_entry(k, "<unset>")) << '"';
            first = false;
        }
        o << "}";
    }
    if (std::getenv("VERIF_OS_AFFINITY"))
    {
        // one latch-held task per worker of a pool, hinted; static pools keep them in place, otherwise slots may stay empty
        o << ",\"os_affinity\":[";
        bool firstw = true;
        for (std::size_t p = 0; p < np; ++p)
        {
            auto& pool = pika::resource::get_thread_pool(p);
            std::size_t sz = pool.get_os_thread_count();
            // shared state: the tasks may still be returning from the latch when this function moves on
            struct st_t
            {
                std::vector<std::string> os;
                std::vector<int> seen;
                pika::latch l;
                std::mutex m;
                st_t(std::size_t n)
                  : os(n)
                  , seen(n, 0)
                  , l((std::ptrdiff_t) n + 1)
                {
                }
            };
            auto st = std::make_shared<st_t>(sz);
            for (std::size_t i = 0; i < sz; ++i)
                ex::execute(ex::with_hint(ex::thread_pool_scheduler{&pool}, pika::execution::thread_schedule_hint((std::int16_t) i)), [st, sz] {
                    cpu_set_t s;
                    CPU_ZERO(&s);
                    sched_getaffinity(0, sizeof s, &s);
                    std::string b;
                    for (int c = 0; c < 256; ++c)
                        if (CPU_ISSET(c, &s)) b += (b.empty() ? "" : ",") + std::to_string(c);
                    {
                        std::lock_guard<std::mutex> g(st->m);
                        std::size_t lw = pika::get_local_worker_thread_num();
                        if (lw < sz)
                        {
                            st->os[lw] = b;
                            st->seen[lw] = 1;
                        }
                    }
                    st->l.arrive_and_wait();
                });
            st->l.arrive_and_wait();
            auto& os = st->os;
            auto& seen = st->seen;
            for (std::size_t i = 0; i < sz; ++i)
            {
                o << (firstw ? "" : ",") << "{\"w\":" << pool.get_thread_offset() + i << ",\"observed\":" << seen[i] << ",\"cpus\":[" << os[i] << "]}";
                firstw = false;
            }
        }
        o << "]";
    }
    o << g_vm_json << "}";
    std::puts(o.str().c_str());
    std::fflush(stdout);
    pika::finalize();
    return 0;
}

// variables_map flavour of the entry point (VERIF_ENTRY=vm): what the application sees of its own registered options
static int entry_vm(pika::program_options::variables_map& vm)
{
    std::ostringstream o;
    o << ",\"vm\":{";
    bool first = true;
    auto sep = [&] {
        o << (first ? "" : ",");
        first = false;
    };
    if (vm.count("app-n"))
    {
        sep();
        o << "\"app-n\":" << vm["app-n"].as<int>();
    }
    if (vm.count("app-name"))
    {
        sep();
        o << "\"app-name\":\"" << jesc(vm["app-name"].as<std::string>()) << "\"";
    }
    if (vm.count("app-flag"))
    {
        sep();
        o << "\"app-flag\":true";
    }
    if (vm.count("pika:positional"))
    {
        sep();
        o << "\"positional\":[";
        bool f2 = true;
        for (auto const& x : vm["pika:positional"].as<std::vector<std::string>>())
        {
            o << (f2 ? "" : ",") << '"' << jesc(x) << '"';
            f2 = false;
        }
        o << "]";
    }
    o << "}";
    g_vm_json = o.str();
    return entry(g_argc > 0 ? 1 : 0, g_argv);
}

int main(int argc, char** argv)
{
    g_argc = argc;
    g_argv = argv;
    if (char const* pools = std::getenv("VERIF_POOLS"))
    {
        std::stringstream ss(pools);
        std::string tok;
        while (std::getline(ss, tok, ','))
            if (!tok.empty()) g_extra.emplace_back(std::atoi(tok.c_str()), (unsigned) std::atoi(tok.substr(tok.find(':') + 1).c_str()));
    }
    pika::init_params p;
    pika::program_options::options_description app("probe options");
    if (std::getenv("VERIF_APP_OPTS"))
    {
        app.add_options()("app-n", pika::program_options::value<int>(), "an integer")(
            "app-name", pika::program_options::value<std::string>(), "a string")("app-flag", "a flag");
        p.desc_cmdline = app;
    }
    if (!g_extra.empty())
        p.rp_callback = [](pika::resource::partitioner& rp, pika::program_options::variables_map const&) {
            std::vector<pika::resource::pu const*> pus;
            for (auto const& s : rp.sockets())
                for (auto const& c : s.cores())
                    for (auto const& pu : c.pus()) pus.push_back(&pu);
            std::size_t total = 0;
            for (auto& x : g_extra) total += x.second;
            // extra pools take PUs from the END of the list; the default pool keeps the rest
            std::size_t next = pus.size() >= total ? pus.size() - total : 0;
            int k = 0;
            for (auto& x : g_extra)
            {
                std::string name = "p" + std::to_string(k++);
                rp.create_thread_pool(name, (pika::resource::scheduling_policy) x.first);
                for (unsigned i = 0; i < x.second && next < pus.size(); ++i) rp.add_resource(*pus[next++], name);
            }
        };
    int rc = 1;
    try
    {
        if (std::getenv("VERIF_ENTRY_VM")) rc = pika::init(std::function<int(pika::program_options::variables_map&)>(entry_vm), argc, argv, p);
        else rc = pika::init(std::function<int(int, char**)>(entry), argc, argv, p);
        std::printf("@@INIT returned %d\n", rc);
    }
    catch (std::exception const& e)
    {
        std::printf("@@INIT threw %s\n", jesc(e.what()).c_str());
        rc = 3;
    }
    std::fflush(stdout);
    return rc;
}
