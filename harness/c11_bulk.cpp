// C11: bulk(sender, n, f) on a pool scheduler calls f exactly once per index in [0, n) with the predecessor's values
// unchanged, then signals the receiver once (values on success, one of the thrown exceptions otherwise).
#include "common/verif.hpp"

#include <stdexcept>

using namespace verif;

static void vio(std::string const& what, std::string const& detail) { report.violation("C11:" + what, detail); }
static std::atomic<std::uint64_t> g_calls_total{0}, g_cases{0}, g_throw_cases{0}, g_big_cases{0};

struct payload
{
    std::string s;
    std::uint64_t x;
    bool ok() const { return s == "payload-\x01\x02 with some length to defeat SSO......" && x == 0xFEEDFACECAFEBEEFull; }
    static payload make() { return {"payload-\x01\x02 with some length to defeat SSO......", 0xFEEDFACECAFEBEEFull}; }
};

struct bulk_error : std::runtime_error
{
    std::uint64_t index;
    explicit bulk_error(std::uint64_t i)
      : std::runtime_error("bulk index " + std::to_string(i))
      , index(i)
    {
    }
};

// which indices throw: 0 none, 1 exactly one (k), 2 every k-th, 3 all
struct throw_spec
{
    int kind = 0;
    std::uint64_t k = 1;
    bool throws(std::uint64_t i) const
    {
        switch (kind)
        {
        case 1: return i == k;
        case 2: return i % k == 0;
        case 3: return true;
        default: return false;
        }
    }
};

// how the predecessor reaches the pool
enum pred_kind
{
    p_transfer_just,     // transfer_just(sched, values...)
    p_schedule_then,     // schedule(sched_with_hint) | then(-> values)
    p_just_continues,    // just(values...) | continues_on(sched)
    p_inline             // just(values...) with no scheduler: generic (sequential) bulk
};

template <typename Shape>
static void one_case(Shape n, throw_spec ts, int pred, int nvals, unsigned hint_worker, char const* shape_name, bool exact_counters)
{
    g_cases++;
    std::uint64_t const N = (std::uint64_t) n;
    std::vector<std::atomic<std::uint8_t>> cnt(exact_counters ? N : 0);
    std::atomic<std::uint64_t> calls{0}, sum{0}, sumsq{0}, bad_index{0}, bad_vals{0}, exited{0}, non_task{0};
    std::atomic<int> signals{0};
    std::atomic<std::uint64_t> exited_at_signal{~0ull};
    auto describe = [&] { return sf("shape=%llu type=%s pred=%d values=%d throw=%d/%llu", (unsigned long long) N, shape_name, pred, nvals, ts.kind, (unsigned long long) ts.k); };
    // very large shapes: per-worker, cache-line separated plain counters (a call never migrates), folded at the end
    struct alignas(64) wslot
    {
        std::uint64_t calls = 0, sum = 0, bad = 0;
    };
    std::vector<wslot> ws(exact_counters ? 0 : 65);
    auto f_common = [&](Shape i, bool vals_ok) {
        std::uint64_t ui = (std::uint64_t) i;
        if (!exact_counters)
        {
            std::size_t w = pika::get_worker_thread_num();
            auto& sl = ws[w < 64 ? w : 64];
            sl.calls++;
            sl.sum += ui;
            if (i < 0 || ui >= N || !vals_ok) sl.bad++;
            return;
        }
        if (i < 0 || ui >= N) bad_index++;
        else if (exact_counters) cnt[ui].fetch_add(1);
        calls.fetch_add(1, std::memory_order_relaxed);
        sum.fetch_add(ui, std::memory_order_relaxed);
        sumsq.fetch_add(ui * ui, std::memory_order_relaxed);
        if (!vals_ok) bad_vals++;
        if (pred != p_inline && pika::threads::detail::get_self_ptr() == nullptr) non_task++;
        bool th = ts.throws(ui);
        exited.fetch_add(1, std::memory_order_relaxed);
        if (th) throw bulk_error(ui);
    };
    ex::thread_pool_scheduler sched{};
    auto hinted = ex::with_hint(sched, pika::execution::thread_schedule_hint((std::int16_t) hint_worker));
    bool got_value = false, got_error = false, value_ok = true;
    std::uint64_t err_index = ~0ull;
    auto finish0 = [&]() {
        signals++;
        exited_at_signal = exited.load();
    };
    try
    {
        if (nvals == 0)
        {
            auto body = [&](Shape i) { f_common(i, true); };
            if (pred == p_transfer_just) tt::sync_wait(ex::schedule(sched) | ex::bulk(n, body) | ex::then(finish0));
            else if (pred == p_schedule_then) tt::sync_wait(ex::schedule(hinted) | ex::then([] {}) | ex::bulk(n, body) | ex::then(finish0));
            else if (pred == p_just_continues) tt::sync_wait(ex::just() | ex::continues_on(sched) | ex::bulk(n, body) | ex::then(finish0));
            else tt::sync_wait(ex::just() | ex::bulk(n, body) | ex::then(finish0));
            got_value = true;
        }
        else if (nvals == 1)
        {
            auto body = [&](Shape i, payload& p) { f_common(i, p.ok()); };
            auto fin = [&](payload p) {
                finish0();
                return p;
            };
            payload r = pred == p_transfer_just ? tt::sync_wait(ex::transfer_just(sched, payload::make()) | ex::bulk(n, body) | ex::then(fin)) :
                pred == p_schedule_then         ? tt::sync_wait(ex::schedule(hinted) | ex::then([] { return payload::make(); }) | ex::bulk(n, body) | ex::then(fin)) :
                pred == p_just_continues        ? tt::sync_wait(ex::just(payload::make()) | ex::continues_on(sched) | ex::bulk(n, body) | ex::then(fin)) :
                                                  tt::sync_wait(ex::just(payload::make()) | ex::bulk(n, body) | ex::then(fin));
            got_value = true;
            value_ok = r.ok();
        }
        else
        {
            auto body = [&](Shape i, payload& p, int& a, double& d) { f_common(i, p.ok() && a == 42 && d == 2.5); };
            auto fin = [&](payload p, int a, double d) {
                finish0();
                return p.ok() && a == 42 && d == 2.5;
            };
            bool r = pred == p_transfer_just ? tt::sync_wait(ex::transfer_just(sched, payload::make(), 42, 2.5) | ex::bulk(n, body) | ex::then(fin)) :
                pred == p_just_continues     ? tt::sync_wait(ex::just(payload::make(), 42, 2.5) | ex::continues_on(sched) | ex::bulk(n, body) | ex::then(fin)) :
                pred == p_inline             ? tt::sync_wait(ex::just(payload::make(), 42, 2.5) | ex::bulk(n, body) | ex::then(fin)) :
                                               tt::sync_wait(ex::transfer_just(hinted, payload::make(), 42, 2.5) | ex::bulk(n, body) | ex::then(fin));
            got_value = true;
            value_ok = r;
        }
    }
    catch (bulk_error const& e)
    {
        got_error = true;
        err_index = e.index;
    }
    catch (...)
    {
        vio("error:foreign-exception", "receiver got an exception that no call threw: " + describe());
        got_error = true;
    }
    if (!exact_counters)
    {
        std::uint64_t c = 0, sm = 0, bd = 0;
        for (auto& sl : ws) c += sl.calls, sm += sl.sum, bd += sl.bad;
        calls = c;
        sum = sm;
        exited = c;
        bad_index = bd;
        if (got_value) exited_at_signal = c;    // folded counters: the ordering part is judged in the exact cases
    }
    g_calls_total += calls.load();
    bool any_throw = false;
    if (ts.kind == 1) any_throw = ts.k < N;
    else if (ts.kind == 2 || ts.kind == 3) any_throw = N > 0;
    if (bad_index.load()) vio("index-out-of-range", sf("%llu calls with an index outside [0,n): %s", (unsigned long long) bad_index.load(), describe().c_str()));
    if (bad_vals.load()) vio("values-changed", sf("%llu calls saw predecessor values different from the ones sent: %s", (unsigned long long) bad_vals.load(), describe().c_str()));
    if (non_task.load()) vio("not-on-pool", "f was called outside a pika task for a pool-scheduler bulk: " + describe());
    if (!any_throw)
    {
        if (!got_value) vio("completion:error-without-throw", "receiver got an error although no call threw: " + describe());
        if (!value_ok) vio("values-changed", "values forwarded to the receiver differ from the ones sent: " + describe());
        if (signals.load() != 1) vio("completion:count", sf("continuation after bulk ran %d times: %s", signals.load(), describe().c_str()));
        if (exited_at_signal.load() != N)
            vio("completion:early", sf("receiver signalled after %llu of %llu calls had returned: %s", (unsigned long long) exited_at_signal.load(), (unsigned long long) N, describe().c_str()));
        if (calls.load() != N) vio("exactly-once:count", sf("f called %llu times for shape %llu: %s", (unsigned long long) calls.load(), (unsigned long long) N, describe().c_str()));
        std::uint64_t es = (N & 1) ? N * ((N - 1) / 2) : (N / 2) * (N - 1);    // mod 2^64
        if (sum.load() != es) vio("exactly-once:index-sum", sf("sum of indices %llu, expected %llu: %s", (unsigned long long) sum.load(), (unsigned long long) es, describe().c_str()));
        if (exact_counters)
            for (std::uint64_t i = 0; i < N; ++i)
                if (cnt[i].load() != 1)
                {
                    vio(cnt[i].load() == 0 ? "exactly-once:missed" : "exactly-once:duplicate", sf("f(%llu) called %d times: %s", (unsigned long long) i, (int) cnt[i].load(), describe().c_str()));
                    break;
                }
    }
    else
    {
        g_throw_cases++;
        if (got_value) vio("completion:value-after-throw", "receiver got a value although a call threw: " + describe());
        if (!got_error) vio("completion:no-error", "a call threw but the receiver got no error: " + describe());
        else if (err_index != ~0ull && !ts.throws(err_index)) vio("error:foreign-exception", sf("error carries index %llu which did not throw: %s", (unsigned long long) err_index, describe().c_str()));
        if (signals.load() != 0) vio("completion:value-after-throw", "value continuation ran although a call threw: " + describe());
        if (exact_counters)
            for (std::uint64_t i = 0; i < N; ++i)
                if (cnt[i].load() > 1)
                {
                    vio("exactly-once:duplicate", sf("f(%llu) called %d times (throwing case): %s", (unsigned long long) i, (int) cnt[i].load(), describe().c_str()));
                    break;
                }
    }
}

template <typename Shape>
static void dispatch(std::uint64_t n, throw_spec ts, int pred, int nvals, unsigned hint, char const* name, bool exact)
{
    if (n > (std::uint64_t) std::numeric_limits<Shape>::max()) return;
    one_case<Shape>((Shape) n, ts, pred, nvals, hint, name, exact);
}

static void any_type(int type, std::uint64_t n, throw_spec ts, int pred, int nvals, unsigned hint, bool exact = true)
{
    switch (type % 6)
    {
    case 0: dispatch<int>(n, ts, pred, nvals, hint, "int", exact); break;
    case 1: dispatch<unsigned>(n, ts, pred, nvals, hint, "unsigned", exact); break;
    case 2: dispatch<long>(n, ts, pred, nvals, hint, "long", exact); break;
    case 3: dispatch<std::size_t>(n, ts, pred, nvals, hint, "size_t", exact); break;
    case 4: dispatch<std::int64_t>(n, ts, pred, nvals, hint, "int64_t", exact); break;
    default: dispatch<std::uint64_t>(n, ts, pred, nvals, hint, "uint64_t", exact); break;
    }
}

int main(int argc, char** argv)
{
    args_t a(argc, argv);
    report.property = "C11";
    runtime_cfg cfg;
    cfg.scheduler = a.str("scheduler", "local-priority-fifo");
    cfg.threads = (unsigned) a.u64("threads", 4);
    cfg.bind_none = !a.has("bind");
    std::string mode = a.str("mode", "small");
    std::uint64_t big = a.u64("shape", 0);
    std::uint64_t randmax = a.u64("randmax", 1000000);
    int reps = (int) a.u64("reps", 60);
    install_hooks();
    if (a.str("perturb", "ciq") == "ciq")
    {
        g_perturb.set(pv::ciq_pop_left, 0.08, 4);
        g_perturb.set(pv::ciq_pop_right, 0.08, 4);
    }
    report.cases = 1;
    {
        runtime rt(cfg);
        rng r(g_seed);
        unsigned W = cfg.threads;
        if (mode == "small")
        {
            for (std::uint64_t n = 0; n <= 300; ++n)
            {
                any_type((int) (n + g_seed), n, {}, (int) r.below(4), (int) r.below(3), (unsigned) r.below(W));
                if (n % 3 == 0) any_type((int) r.below(6), n, {(int) (1 + r.below(3)), 1 + r.below(n + 1)}, (int) r.below(3), (int) r.below(3), (unsigned) r.below(W));
            }
        }
        else if (mode == "boundary")
        {
            for (std::uint64_t k = 1; k <= 4; ++k)
                for (int j = 0; j <= 7; ++j)
                    for (int d = -2; d <= 2; ++d)
                    {
                        std::int64_t n = (std::int64_t) (k * W * 8 * (1ull << j)) + d;
                        if (n < 0) continue;
                        any_type((int) r.below(6), (std::uint64_t) n, {}, (int) r.below(3), (int) r.below(3), (unsigned) r.below(W));
                        if (d == 0) any_type((int) r.below(6), (std::uint64_t) n, {2, 1 + r.below(50)}, (int) r.below(3), (int) r.below(3), (unsigned) r.below(W));
                    }
        }
        else if (mode == "random")
        {
            for (int i = 0; i < reps; ++i)
            {
                std::uint64_t n = r.below(randmax);
                throw_spec ts{};
                if (r.chance(1, 3)) ts = {(int) (1 + r.below(3)), 1 + r.below(n + 1)};
                any_type((int) r.below(6), n, ts, (int) r.below(3), (int) r.below(3), (unsigned) r.below(W));
            }
        }
        else if (mode == "large")
        {
            // one very large shape: per-call work is a few relaxed atomic adds; oracle = count + index sum (+ sum of squares kept)
            g_big_cases++;
            int type = (big > 0xffffffffull) ? 5 : ((big > 0x7fffffffull) ? (int) (1 + 2 * r.below(3)) : (int) r.below(6));
            if (type == 1 && big > 0xffffffffull) type = 5;
            if (a.has("type")) type = (int) a.u64("type", 5);    // the narrowest type that can hold the shape is the interesting one
            any_type(type, big, {}, (int) r.below(3), (int) r.below(2), (unsigned) r.below(W), false);
        }
        auto t = totals();
        report.add("bulk_cases", g_cases.load());
        report.add("f_calls", g_calls_total.load());
        report.add("throwing_cases", g_throw_cases.load());
        report.bit("chunk_pop_left", t.hits[pv::ciq_pop_left]);
        report.bit("chunk_steal_pop_right", t.hits[pv::ciq_pop_right]);
        report.bit("throwing_case", g_throw_cases.load());
        report.bit("large_shape", g_big_cases.load());
        std::string sig = cfg.describe() + "|" + mode + "|" + std::to_string(big) + "|";
        for (auto& kv : report.bits) sig += kv.second ? "1" : "0";
        report.signature(sig);
        report.sample(sf("{\"cfg\":\"%s\",\"mode\":\"%s\",\"shape\":%llu,\"cases\":%lu,\"f_calls\":%lu}", cfg.describe().c_str(), mode.c_str(), (unsigned long long) big,
            (unsigned long) g_cases.load(), (unsigned long) g_calls_total.load()));
    }
    report.emit();
    return 0;
}
