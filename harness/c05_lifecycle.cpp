// C05: runtime life cycle - wait()/stop() drain all work, stop() returns the entry function's result, restart with another
// configuration works, nothing runs while suspended, queued work runs after resume().
// One process = one random history over several runtime incarnations, respecting the documented preconditions
// (life-cycle calls from the main OS thread, finalize from inside or outside).
#include "common/verif.hpp"

using namespace verif;

static std::atomic<std::uint64_t> g_slow_returns{0}, g_entry_returned_stamp{0};
static void vio(std::string const& what, std::string const& detail) { report.violation("C05:" + what, detail); }

constexpr int MAXG = 4096;
static std::atomic<std::uint64_t> g_spawned[MAXG], g_exited[MAXG];
static std::atomic<bool> g_group_complete[MAXG];    // all roots of the group have been submitted (set by the submitter)
static std::atomic<int> g_next_group{0};
static std::atomic<bool> g_suspended{false};
static std::atomic<std::uint64_t> g_ran_while_suspended{0}, g_tasks{0}, g_waits{0}, g_wait_groups_checked{0}, g_susp_cycles{0}, g_incarnations{0},
    g_ext_groups{0}, g_queued_while_suspended{0};
static std::atomic<int> g_incarnation_id{0};

// a life-cycle call that never returns blocks the main thread itself: a plain watchdog thread turns "no call returned and
// no task finished for 25 s" into a verdict
static std::atomic<char const*> g_cur_op{"-"};
static std::atomic<std::uint64_t> g_op_seq{0};
static std::atomic<bool> g_finished{false};
static void mark_op(char const* name)
{
    g_cur_op = name;
    g_op_seq++;
}
static void watchdog()
{
    std::uint64_t last = ~0ull;
    auto t0 = std::chrono::steady_clock::now();
    while (!g_finished.load())
    {
        std::this_thread::sleep_for(std::chrono::milliseconds(50));
        std::uint64_t cur = g_op_seq.load() * 1000003ull + g_tasks.load();
        auto now = std::chrono::steady_clock::now();
        if (cur != last)
        {
            last = cur;
            t0 = now;
        }
        else if (std::chrono::duration<double>(now - t0).count() > 25.0)
        {
            vio(std::string("call-did-not-return:") + g_cur_op.load(), std::string("life-cycle call '") + g_cur_op.load() + "' has not returned and no task finished for 25 s");
            bail(0);
        }
    }
}

static void check_not_suspended(char const* where)
{
    if (g_suspended.load())
    {
        g_ran_while_suspended++;
        vio("ran-while-suspended", std::string("a task body executed (") + where + ") between the return of suspend() and the call of resume()");
    }
}

static void tree(int g, int depth, std::uint64_t seed, int inc)
{
    g_spawned[g]++;
    ex::thread_pool_scheduler s{};
    rng r0(seed);
    auto sp = r0.chance(1, 5) ? ex::with_priority(s, pika::execution::thread_priority::high) : s;
    ex::execute(sp, [g, depth, seed, inc] {
        check_not_suspended("entry");
        if (g_incarnation_id.load() != inc) vio("incarnation-mixup", "a task of a previous incarnation ran in a later one");
        rng r(seed);
        int k = (int) r.below(3);
        for (int i = 0; i < k; ++i)
        {
            pika::this_thread::yield();
            check_not_suspended("after yield");
        }
        if (depth > 0)
        {
            int w = 1 + (int) r.below(3);
            for (int i = 0; i < w; ++i) tree(g, depth - 1, r.next(), inc);
        }
        if (r.chance(1, 4)) pika::this_thread::yield();
        check_not_suspended("exit");
        g_tasks++;
        g_exited[g]++;
    });
}

static int new_group()
{
    int g = g_next_group.fetch_add(1);
    if (g >= MAXG) g = MAXG - 1;
    return g;
}

// after wait()/stop() returned: every group that was completely submitted before the call must be drained
static void check_groups(std::vector<int> const& required, char const* call)
{
    for (int g : required)
    {
        std::uint64_t e = g_exited[g].load(), s = g_spawned[g].load();
        if (e != s)
            vio(std::string("not-drained:") + call, sf("%s returned while %lu of %lu tasks of a group submitted before the call (and their descendants) had not finished", call,
                                                       (unsigned long) (s - e), (unsigned long) s));
        g_wait_groups_checked++;
    }
}

int main(int argc, char** argv)
{
    args_t a(argc, argv);
    report.property = "C05";
    int incarnations = (int) a.u64("incarnations", 4);
    int steps = (int) a.u64("steps", 30);
    std::string profile = a.str("perturb", "gac");
    install_hooks();
    if (profile == "gac")
    {
        g_perturb.set(pv::gac_inc, 0.02, 40);
        g_perturb.set(pv::gac_dec, 0.02, 40);
        g_perturb.set(pv::tm_wait_pred, 0.05, 30);
        g_perturb.set(pv::pu_suspend, 0.5, 200);
        g_perturb.set(pv::pu_resume, 0.2, 60);
    }
    else if (profile == "light")
        g_perturb.set_all(0.003, 30);
    rng r(g_seed);
    report.cases = 1;
    std::string hist;
    std::thread wd(watchdog);
    for (int inc = 0; inc < incarnations; ++inc)
    {
        g_incarnation_id = inc;
        int pol = (int) r.below(8);
        if (pol == 7 && a.has("no-shared-priority")) pol = 1;    // TSan legs: see lib/runner.py (libtsan shadow stack vs migrating tasks)
        unsigned threads = 1 + (unsigned) r.below(8);
        std::uint64_t small = r.chance(1, 2) ? 0 : (0x8000 + 0x4000 * r.below(4));
        int code = 100 + inc * 7 + (int) r.below(5);
        bool entry_finalizes = r.chance(1, 3);
        bool slow_return = r.chance(2, 3);
        std::vector<std::string> av{"c05", "--pika:threads=" + std::to_string(threads), std::string("--pika:scheduler=") + policy_names[pol]};
        // TSan runs keep the default binding: with bind=none pika has a start-up race on a function-static mask
        // (affinity_data::get_pu_mask) that has nothing to do with this property
        if (!a.has("bind")) av.push_back("--pika:bind=none");
        if (small) av.push_back(sf("--pika:ini=pika.stacks.small_size=0x%lx", (unsigned long) small));
        std::vector<char const*> argvv;
        for (auto& s : av) argvv.push_back(s.c_str());
        hist += sf("start(%s/%u%s) ", policy_names[pol], threads, entry_finalizes ? ",entry-finalizes" : "");
        std::atomic<bool> entry_ran{false};
        int entry_group = new_group();
        mark_op("start()");
        pika::start(
            [&, code, entry_finalizes, slow_return, inc]() -> int {
                entry_ran = true;
                for (int i = 0; i < 3; ++i) tree(entry_group, 3, g_seed * 31 + inc * 7 + i, inc);
                g_group_complete[entry_group] = true;
                if (entry_finalizes) pika::finalize();
                if (entry_finalizes && slow_return)
                {
                    // the entry function keeps working after finalize(): stop() must still return ITS result, and only once
                    // it has returned
                    g_slow_returns++;
                    spin_us(500 + (unsigned) (code * 37 % 9000));
                    for (int i = 0; i < 3; ++i) pika::this_thread::yield();
                    spin_us(300);
                }
                g_entry_returned_stamp = now_ns();
                return code;
            },
            (int) argvv.size(), argvv.data());
        g_incarnations++;
        // configuration of THIS incarnation must be in effect
        if (pika::get_num_worker_threads() != threads) vio("restart:config", sf("incarnation %d runs %zu workers, %u requested", inc, pika::get_num_worker_threads(), threads));
        {
            std::string desc = pika::resource::get_thread_pool("default").get_scheduler()->get_description();
            // description names the scheduler class; map the policy to the expected substring
            static char const* const want[8] = {"local_queue_scheduler", "local_priority_queue_scheduler", "local_priority_queue_scheduler", "static_queue_scheduler",
                "static_priority_queue_scheduler", "abp_fifo_priority_queue_scheduler", "abp_fifo_priority_queue_scheduler", "shared_priority_queue_scheduler"};
            if (desc.find(want[pol]) == std::string::npos) vio("restart:config", sf("incarnation %d requested policy %s but the pool runs '%s'", inc, policy_names[pol], desc.c_str()));
        }
        if (small)
        {
            std::atomic<std::ptrdiff_t> seen{0};
            ex::execute(ex::thread_pool_scheduler{}, [&] { seen = pika::this_thread::get_stack_size(); });
            pika::wait();
            if ((std::uint64_t) seen.load() != small) vio("restart:config", sf("incarnation %d: small stack size 0x%lx requested, tasks get 0x%lx", inc, (unsigned long) small, (unsigned long) seen.load()));
        }
        std::vector<int> my_groups{entry_group};    // groups whose submission is complete (by this thread, or flagged by others)
        std::vector<std::thread> ext;
        std::vector<int> ext_groups;
        int nsteps = entry_finalizes ? 0 : steps;    // nothing is submitted from outside once finalize() was called
        for (int st = 0; st < nsteps; ++st)
        {
            int op = (int) r.below(10);
            if (op < 4)
            {
                int g = new_group();
                int roots = 1 + (int) r.below(6);
                for (int i = 0; i < roots; ++i) tree(g, 2 + (int) r.below(4), r.next(), inc);
                g_group_complete[g] = true;
                my_groups.push_back(g);
                hist += "submit ";
            }
            else if (op < 6 && ext.size() < 3)
            {
                // external submitter running concurrently with the following calls
                int g = new_group();
                ext_groups.push_back(g);
                std::uint64_t sd = r.next();
                g_ext_groups++;
                ext.emplace_back([g, sd, inc] {
                    rng rr(sd);
                    int roots = 5 + (int) rr.below(30);
                    for (int i = 0; i < roots; ++i)
                    {
                        tree(g, 2 + (int) rr.below(3), rr.next(), inc);
                        if (rr.chance(1, 4)) std::this_thread::yield();
                    }
                    g_group_complete[g] = true;
                });
                hist += "ext-submitter ";
            }
            else if (op < 9)
            {
                // groups required: mine, plus external ones already flagged complete BEFORE the call
                std::vector<int> req = my_groups;
                for (int g : ext_groups)
                    if (g_group_complete[g].load()) req.push_back(g);
                mark_op("wait()");
                pika::wait();
                mark_op("-");
                check_groups(req, "wait()");
                g_waits++;
                hist += "wait ";
            }
            else if (!entry_finalizes)
            {
                // suspend needs no concurrent submitters (documented: all work drained, called from outside)
                for (auto& t : ext) t.join();
                ext.clear();
                mark_op("suspend()");
                pika::suspend();
                mark_op("-");
                g_suspended = true;
                int g = new_group();
                for (int i = 0; i < 4; ++i) tree(g, 2, r.next(), inc);    // queued while suspended
                g_group_complete[g] = true;
                g_queued_while_suspended += 4;
                spin_us((unsigned) r.below(300));
                if (g_exited[g].load() != 0) vio("ran-while-suspended", "work submitted while the runtime was suspended ran before resume()");
                g_suspended = false;
                mark_op("resume()");
                pika::resume();
                mark_op("wait() after resume()");
                my_groups.push_back(g);
                pika::wait();
                mark_op("-");
                check_groups(my_groups, "wait() after resume()");
                g_susp_cycles++;
                hist += "suspend/resume ";
            }
        }
        for (auto& t : ext) t.join();
        for (int g : ext_groups) my_groups.push_back(g);
        if (!entry_finalizes)
        {
            if (r.chance(1, 2)) pika::finalize();    // from outside
            else
            {
                ex::execute(ex::thread_pool_scheduler{}, [] { pika::finalize(); });    // from a task
            }
        }
        mark_op("stop()");
        int rc = pika::stop();
        mark_op("-");
        hist += sf("stop->%d | ", rc);
        if (!entry_ran.load()) vio("entry-not-run", "the entry function did not run");
        if (g_entry_returned_stamp.load() == 0) vio("stop:before-entry-returned", "stop() returned before the entry function had returned");
        g_entry_returned_stamp = 0;
        if (rc != code) vio("stop:result", sf("stop() returned %d, the entry function returned %d", rc, code));
        check_groups(my_groups, "stop()");
    }
    g_finished = true;
    wd.join();
    report.add("incarnations", g_incarnations.load());
    report.add("tasks", g_tasks.load());
    report.add("waits", g_waits.load());
    report.add("groups_checked_after_call", g_wait_groups_checked.load());
    report.add("suspend_cycles", g_susp_cycles.load());
    report.bit("restart", g_incarnations.load() > 1 ? g_incarnations.load() : 0);
    report.bit("entry_keeps_working_after_finalize", g_slow_returns.load());
    report.bit("wait_with_concurrent_submitter", g_ext_groups.load());
    report.bit("suspend_cycle", g_susp_cycles.load());
    report.bit("queued_while_suspended", g_queued_while_suspended.load());
    auto t = totals();
    report.bit("wait_predicate_polled", t.hits[pv::tm_wait_pred]);
    std::string sig = hist.substr(0, 300) + "|";
    for (auto& kv : report.bits) sig += kv.second ? "1" : "0";
    report.signature(sig);
    report.sample("{\"history\":\"" + jesc(hist.substr(0, 700)) + "\"}");
    report.emit();
    return 0;
}
