// C20 - MPI request senders complete exactly once, after the transfer; pika::wait()/shutdown do not return with requests
// in flight.  Single rank (MPI singleton), self-addressed Isend/Irecv pairs through transform_mpi, send and receive
// started from different pika tasks.  The real polling code runs on the workers (or a forced dedicated pool).
//
// Oracles: per-operation signal counters (value and error channel), full payload comparison in the receive
// continuation (the data must be there when the continuation starts), ledger after pika::wait(): every started
// operation has signalled and finished its continuation, get_work_count() == 0; the same after pika::stop() for the
// shutdown variant; hook-side shadow of requests handed to the poller vs. callbacks completed.
#include "common/verif.hpp"

#include <pika/execution.hpp>
#include <pika/init.hpp>
#include <pika/mpi.hpp>
#include <pika/runtime.hpp>
#include <pika/thread.hpp>

#include <mpi.h>

using namespace verif;
namespace ex = pika::execution::experimental;
namespace mpi = pika::mpi::experimental;

struct op_rec
{
    std::atomic<int> value_signals{0}, error_signals{0}, finished{0};
    std::atomic<int> bad_payload{0};
    std::atomic<int> started{0};
    int expect_error = 0;
    int round = 0, idx = 0;
    char kind = 'r';
    std::size_t count = 0;
    std::shared_ptr<std::vector<int>> buf;
};

static std::vector<std::shared_ptr<op_rec>> g_all;    // kept until the end: late duplicate signals stay observable
static std::atomic<std::uint64_t> g_value_signals{0}, g_error_signals{0}, g_slow_conts{0}, g_bytes{0};
static std::atomic<std::int64_t> g_shadow_in_poller{0};    // hook side: queued - callback done
static std::atomic<std::int64_t> g_max_shadow{0};
static std::atomic<std::uint64_t> g_cb_top{0}, g_cb_bottom{0}, g_cb_single{0}, g_queued{0};
static std::atomic<int> g_in_callback{0};
static std::atomic<int> g_phase{0};    // 0 submit, 1 pika::wait, 2 straggler loop, 3 stop_polling, 4 finalize/stop, 5 done
static std::atomic<int> g_round{0};
static std::string g_sched_name;
static char const* const phase_name[] = {"submit", "wait", "after-wait", "stop_polling", "shutdown", "done"};

static void hook(std::uint32_t site, void const*, std::uint64_t, std::uint64_t b) noexcept
{
    switch (site)
    {
    case pv::mpi_request_queued:
        ++g_queued;
        {
            std::int64_t v = ++g_shadow_in_poller, m = g_max_shadow.load();
            while (v > m && !g_max_shadow.compare_exchange_weak(m, v)) {}
        }
        break;
    case pv::mpi_ready_dequeued:
        ++g_in_callback;
        (b == 0 ? g_cb_top : (b == 1 ? g_cb_bottom : g_cb_single))++;
        break;
    case pv::mpi_callback_done:
        --g_in_callback;
        --g_shadow_in_poller;
        break;
    default: break;
    }
}

static int pattern(int round, int idx, std::size_t k) { return (int) (round * 7919 + idx * 104729 + (int) k * 31 + 5); }

int main(int argc, char** argv)
{
    args_t a(argc, argv);
    report.property = "C20";
    int provided = 0;
    MPI_Init_thread(&argc, &argv, MPI_THREAD_MULTIPLE, &provided);
    if (provided < MPI_THREAD_MULTIPLE)
    {
        report.inconc("MPI_THREAD_MULTIPLE not available");
        report.emit();
        return 2;
    }
    int rank = 0;
    MPI_Comm_rank(MPI_COMM_WORLD, &rank);

    runtime_cfg cfg;
    cfg.scheduler = a.str("scheduler", "local-priority-fifo");
    cfg.threads = (unsigned) a.u64("threads", 4);
    cfg.bind_none = !a.has("bind");
    g_sched_name = cfg.scheduler;
    unsigned mode = (unsigned) a.u64("cmode", 30);
    bool pool = a.u64("pool", 0) != 0 && cfg.threads >= 2;
    bool shutdown_variant = a.u64("shutdown", 0) != 0;
    bool errors_return = a.u64("errors-return", 0) != 0;    // MPI_ERRORS_RETURN + no_handler instead of the throwing handler
    int rounds = (int) a.u64("rounds", 40);
    int maxpairs = (int) a.u64("pairs", 8);
    int cycle = (int) a.u64("cycle", 7);    // stop_polling/start_polling every `cycle` rounds
    int err_every = (int) a.u64("err-every", 5);
    int spin_max_us = (int) a.u64("spin-us", 1500);
    bool burst = a.u64("burst", 0) != 0;
    cfg.extra.push_back("--pika:mpi-completion-mode=" + std::to_string(mode));
    std::string pool_name;
    if (pool)
    {
        cfg.extra.push_back("--pika:mpi-enable-pool");
        pool_name = "verif-mpi";
        cfg.rp = [&](pika::resource::partitioner& rp, pika::program_options::variables_map const&) {
            mpi::detail::create_pool(rp, pool_name, mpi::polling_pool_creation_mode::mode_force_create);
        };
    }
    install_hooks();
    g_user_handler = hook;
    std::string perturb = a.str("perturb", "mpi");
    if (perturb == "mpi")
    {
        g_perturb.set(pv::mpi_ready_enqueued, 0.3, 300);
        g_perturb.set(pv::mpi_ready_dequeued, 0.1, 100);
        g_perturb.set(pv::mpi_callback_done, 0.1, 100);
        g_perturb.set(pv::mpi_request_queued, 0.1, 50);
        g_perturb.set(pv::gac_dec, 0.02, 50);
    }
    report.cases = 1;
    // in-process watchdog: a run that makes no progress for 90 s is reported with the phase it is stuck in and the ledger
    // (a lost completion shows as pika::wait()/stop() never returning, which a plain time-out would hide)
    int stuck_s = (int) a.u64("stuck-s", 60);
    std::thread([mode, stuck_s] {
        std::uint64_t last = 0;
        int same = 0;
        for (;;)
        {
            std::this_thread::sleep_for(std::chrono::seconds(1));
            if (g_phase.load() == 5) return;
            std::uint64_t cur = g_value_signals.load() + g_error_signals.load() + (std::uint64_t) g_round.load() * 1000003u + (std::uint64_t) g_phase.load();
            if (cur != last)
            {
                last = cur;
                same = 0;
                continue;
            }
            if (++same < stuck_s) continue;
            std::uint64_t unsignalled = 0, unfinished = 0;
            for (auto& m : g_all)
            {
                if (m->value_signals.load() + m->error_signals.load() == 0) ++unsignalled;
                else if (m->finished.load() == 0) ++unfinished;
            }
            static char const* const method[] = {"yield_while", "suspend_resume", "new_task", "continuation"};
            report.violation(sf("C20:stuck:%s:%s:%s", phase_name[g_phase.load()], method[(mode >> 3) & 3], g_sched_name.c_str()),
                sf("completion mode %u: no progress for %d s in phase '%s' of round %d: %llu operations never signalled, %llu continuations unfinished, requests in poller (hook shadow) %lld, "
                   "get_work_count()=%zu, callbacks running %d",
                    mode, stuck_s, phase_name[g_phase.load()], g_round.load(), (unsigned long long) unsignalled, (unsigned long long) unfinished, (long long) g_shadow_in_poller.load(),
                    mpi::get_work_count(), g_in_callback.load()));
            bail(0);
        }
    }).detach();
    auto errmode = errors_return ? mpi::exception_mode::no_handler : mpi::exception_mode::install_handler;
    rng r(g_seed);
    std::uint64_t ops_started = 0, waits = 0, restarts = 0, err_ops = 0;
    {
        runtime rt(cfg);
        if (errors_return) MPI_Comm_set_errhandler(MPI_COMM_WORLD, MPI_ERRORS_RETURN);
        mpi::start_polling(errmode, pool_name);
        if (mpi::get_completion_mode() != mode) report.inconc(sf("completion mode %zu in effect, %u requested", mpi::get_completion_mode(), mode));

        auto launch = [&](std::shared_ptr<op_rec> rec, int tag, unsigned delay, unsigned spin) {
            ex::execute(ex::thread_pool_scheduler{}, [=] {
                if (delay) spin_us(delay);
                rec->started = 1;
                int* p = rec->buf->data();
                int cnt = (int) rec->count;
                int peer = rec->expect_error ? 12345 : rank;
                auto cont = [rec, spin] {
                    int prev = rec->value_signals.fetch_add(1);
                    ++g_value_signals;
                    if (prev == 0 && rec->kind == 'r')
                    {
                        // the whole message must be visible when the continuation starts
                        int const* q = rec->buf->data();
                        for (std::size_t k = 0; k < rec->count; ++k)
                            if (q[k] != pattern(rec->round, rec->idx, k))
                            {
                                ++rec->bad_payload;
                                break;
                            }
                    }
                    if (spin)
                    {
                        ++g_slow_conts;
                        spin_us(spin);
                    }
                    ++rec->finished;
                };
                auto onerr = [rec](std::exception_ptr) {
                    ++rec->error_signals;
                    ++g_error_signals;
                    ++rec->finished;
                    return ex::just();
                };
                if (rec->kind == 'r')
                    ex::start_detached(mpi::transform_mpi(ex::just(p, cnt, MPI_INT, peer, tag, MPI_COMM_WORLD), MPI_Irecv) | ex::then(cont) | ex::let_error(onerr));
                else
                    ex::start_detached(mpi::transform_mpi(ex::just(p, cnt, MPI_INT, peer, tag, MPI_COMM_WORLD), MPI_Isend) | ex::then(cont) | ex::let_error(onerr));
            });
        };

        static std::size_t const sizes[] = {0, 1, 17, 1024, 16384, 262144};
        for (int round = 0; round < rounds; ++round)
        {
            g_round = round;
            g_phase = 0;
            int np = burst ? maxpairs - (int) r.below(8) : 1 + (int) r.below((std::uint64_t) maxpairs);
            if (np < 1) np = 1;
            std::vector<std::shared_ptr<op_rec>> mine;
            bool last = (round == rounds - 1);
            for (int i = 0; i < np; ++i)
            {
                std::size_t cnt = sizes[r.below(burst ? 4 : (r.chance(1, 6) ? 6 : 5))];
                auto rr = std::make_shared<op_rec>();
                auto ss = std::make_shared<op_rec>();
                rr->kind = 'r';
                ss->kind = 's';
                rr->round = ss->round = round;
                rr->idx = ss->idx = i;
                rr->count = ss->count = cnt;
                rr->buf = std::make_shared<std::vector<int>>(cnt + 1, -1);
                ss->buf = std::make_shared<std::vector<int>>(cnt + 1, 0);
                for (std::size_t k = 0; k < cnt; ++k) (*ss->buf)[k] = pattern(round, i, k);
                g_bytes += cnt * sizeof(int);
                unsigned rd = r.chance(1, 2) ? (unsigned) r.below(400) : 0, sd = r.chance(1, 2) ? (unsigned) r.below(900) : 0;
                if (burst)
                {
                    // all receives are posted first and stay pending together (the polling vector is tested in chunks of 32);
                    // the sends follow one at a time, highest index first
                    rd = 0;
                    sd = 1500 + (unsigned) (np - 1 - i) * 60;
                }
                unsigned spin = r.chance(1, 3) ? (unsigned) r.below((std::uint64_t) spin_max_us + 1) : 0;
                // the slowest continuation belongs to the operation most likely to finish last
                if (i == np - 1) spin = (unsigned) spin_max_us, sd += 600;
                launch(rr, i, rd, spin);
                launch(ss, i, sd, r.chance(1, 4) ? (unsigned) r.below(300) : 0);
                mine.push_back(rr);
                mine.push_back(ss);
                ops_started += 2;
            }
            if (err_every && round % err_every == err_every - 1)
            {
                auto ee = std::make_shared<op_rec>();
                ee->kind = 's';
                ee->expect_error = 1;
                ee->round = round;
                ee->idx = 999;
                ee->count = 4;
                ee->buf = std::make_shared<std::vector<int>>(5, 1);
                launch(ee, 900, 0, 0);
                mine.push_back(ee);
                ++err_ops;
                ++ops_started;
            }
            for (auto& m : mine) g_all.push_back(m);
            if (last && shutdown_variant) break;    // leave them in flight for finalize()/stop()
            g_phase = 1;
            pika::wait();
            g_phase = 2;
            ++waits;
            // ledger: nothing started before wait() may still be on its way
            std::size_t work = mpi::get_work_count();
            for (auto& m : mine)
            {
                int vs = m->value_signals.load(), es = m->error_signals.load(), fin = m->finished.load();
                if (vs + es == 0)
                    report.violation(sf("C20:wait-returned-early:mode%u", mode),
                        sf("pika::wait() returned but %s #%d of round %d (count %zu) has not signalled its receiver (started=%d, in-flight count reported %zu, callbacks running %d)",
                            m->kind == 'r' ? "receive" : "send", m->idx, round, m->count, m->started.load(), work, g_in_callback.load()));
                else if (fin == 0)
                    report.violation(sf("C20:wait-returned-early:mode%u", mode),
                        sf("pika::wait() returned while the continuation of %s #%d of round %d was still running (callbacks running %d)", m->kind == 'r' ? "receive" : "send",
                            m->idx, round, g_in_callback.load()));
            }
            if (work != 0) report.violation(sf("C20:work-count-after-wait:mode%u", mode), sf("get_work_count() == %zu after pika::wait() in round %d", work, round));
            // let stragglers finish so that the next round starts clean (only matters after a violation)
            for (auto& m : mine)
                while (m->finished.load() == 0) std::this_thread::sleep_for(std::chrono::milliseconds(1));
            if (cycle && round % cycle == cycle - 1 && !last)
            {
                pika::wait();
                g_phase = 3;
                mpi::stop_polling();
                if (errors_return) MPI_Comm_set_errhandler(MPI_COMM_WORLD, MPI_ERRORS_RETURN);
                mpi::start_polling(errmode, pool_name);
                g_phase = 2;
                ++restarts;
            }
        }
        g_phase = 4;
        if (shutdown_variant)
        {
            rt.stop();    // finalize + stop with requests in flight
            for (auto& m : g_all)
                if (m->value_signals.load() + m->error_signals.load() == 0 || m->finished.load() == 0)
                {
                    report.violation(sf("C20:stop-returned-early:mode%u", mode),
                        sf("pika::stop() returned but %s #%d of round %d has %s", m->kind == 'r' ? "receive" : "send", m->idx, m->round,
                            m->value_signals.load() + m->error_signals.load() == 0 ? "not signalled its receiver" : "not finished its continuation"));
                    break;
                }
        }
        else
        {
            pika::wait();
            mpi::stop_polling();
        }
    }
    g_phase = 5;
    // end-of-run ledger over every operation of the run (late duplicates included)
    std::this_thread::sleep_for(std::chrono::milliseconds(20));
    std::uint64_t dup = 0;
    for (auto& m : g_all)
    {
        int vs = m->value_signals.load(), es = m->error_signals.load();
        if (vs + es > 1)
        {
            ++dup;
            report.violation(sf("C20:signalled-twice:%s:mode%u", m->expect_error ? "error-op" : "plain-op", mode),
                sf("%s #%d of round %d signalled its receiver %d times on the value channel and %d times on the error channel%s", m->kind == 'r' ? "receive" : "send", m->idx,
                    m->round, vs, es, errors_return ? " (MPI_ERRORS_RETURN, no pika error handler)" : ""));
        }
        else if (vs + es == 0)
            report.violation(sf("C20:never-signalled:mode%u", mode), sf("%s #%d of round %d never signalled its receiver", m->kind == 'r' ? "receive" : "send", m->idx, m->round));
        else if (m->expect_error && es != 1)
            report.violation(sf("C20:error-not-reported:mode%u", mode), sf("send to an invalid rank completed on the value channel (round %d)", m->round));
        else if (!m->expect_error && es != 0)
            report.violation(sf("C20:spurious-error:mode%u", mode), sf("%s #%d of round %d completed with an error", m->kind == 'r' ? "receive" : "send", m->idx, m->round));
        if (m->bad_payload.load())
            report.violation(sf("C20:payload-incomplete:mode%u", mode),
                sf("receive #%d of round %d (count %zu): the continuation started before the message was in the buffer", m->idx, m->round, m->count));
    }
    if (g_shadow_in_poller.load() != 0)
        report.violation(sf("C20:poller-ledger:mode%u", mode), sf("%lld requests handed to the poller never had their callback completed", (long long) g_shadow_in_poller.load()));
    MPI_Finalize();
    report.add("operations", ops_started);
    report.add("value_signals", g_value_signals.load());
    report.add("error_signals", g_error_signals.load());
    report.add("waits", waits);
    report.add("polling_restarts", restarts);
    report.add("bytes_moved", g_bytes.load());
    report.add("requests_handed_to_poller", g_queued.load());
    report.add("callbacks_top_loop", g_cb_top.load());
    report.add("callbacks_bottom_loop", g_cb_bottom.load());
    report.add("callbacks_singlethreaded", g_cb_single.load());
    report.add("slow_continuations", g_slow_conts.load());
    report.bit("poller_used", g_queued.load());
    report.bit("callback_by_other_worker", g_cb_top.load());
    report.bit("error_operations", err_ops);
    report.bit("polling_restarted", restarts);
    report.bit("shutdown_with_requests_in_flight", shutdown_variant ? 1 : 0);
    report.bit("dedicated_pool", pool ? 1 : 0);
    report.bit("more_than_32_requests_pending", g_max_shadow.load() > 32 ? 1 : 0);
    report.add("max_requests_in_poller", (std::uint64_t) g_max_shadow.load());
    std::string sig = sf("%s|mode%u|pool%d|shutdown%d|er%d|", cfg.describe().c_str(), mode, (int) pool, (int) shutdown_variant, (int) errors_return);
    sig += (g_cb_top.load() || pool || shutdown_variant || err_ops) ? "1" : "0";
    report.signature(sig);
    (void) dup;
    report.emit();
    return 0;
}
