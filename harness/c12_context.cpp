// C12: a task's context survives suspension, migration and recycling.
//   canaries at random call depths across yields/suspensions; callee-saved registers across a yield (asm stub);
//   stack size per class as configured, usable, disjoint among live tasks; clean start on recycled thread objects
//   (interruption request, thread data, exit callbacks); FP control word across a yield (separate mode).
#include "common/verif.hpp"

#include <pika/latch.hpp>
#include <pika/threading_base/thread_helpers.hpp>

#include <cfenv>
#include <cstring>

using namespace verif;
using pika::execution::thread_stacksize;

static void vio(std::string const& what, std::string const& detail) { report.violation("C12:" + what, detail); }
static std::atomic<std::uint64_t> g_done{0}, g_canary_checks{0}, g_reg_checks{0}, g_migrations{0}, g_stack_checks{0}, g_clean_checks{0}, g_fp_checks{0},
    g_polluters{0}, g_suspends{0}, g_exit_cb_runs{0};

// ---- callee-saved register stub: loads patterns into rbx, rbp, r12-r15, calls fn (which yields), stores them back
extern "C" void verif_call_with_regs(void (*fn)(), std::uint64_t pattern, std::uint64_t* out);
asm(R"(
.text
.globl verif_call_with_regs
.type verif_call_with_regs,@function
verif_call_with_regs:
    push %rbx
    push %rbp
    push %r12
    push %r13
    push %r14
    push %r15
    push %rdx
    mov %rsi, %r12
    lea 1(%rsi), %r13
    lea 2(%rsi), %r14
    lea 3(%rsi), %r15
    lea 4(%rsi), %rbx
    lea 5(%rsi), %rbp
    call *%rdi
    pop %rdx
    mov %r12, 0(%rdx)
    mov %r13, 8(%rdx)
    mov %r14, 16(%rdx)
    mov %r15, 24(%rdx)
    mov %rbx, 32(%rdx)
    mov %rbp, 40(%rdx)
    pop %r15
    pop %r14
    pop %r13
    pop %r12
    pop %rbp
    pop %rbx
    ret
.size verif_call_with_regs, .-verif_call_with_regs
.section .note.GNU-stack,"",@progbits
.text
)");

static void yield_fn()
{
    pika::this_thread::yield();
    pika::this_thread::yield();
}

// ---- live stack range registry
struct srange
{
    std::uintptr_t lo, hi;
    std::uint64_t id;
};
static std::mutex g_reg_m;
static std::vector<srange> g_live;

static std::ptrdiff_t g_conf[4] = {0, 0, 0, 0};    // configured sizes small/medium/large/huge
static bool g_guard = true;

__attribute__((noinline)) static void touch_down(volatile char* from, std::size_t bytes)
{
    for (std::size_t off = 0; off < bytes; off += 512) from[-(std::ptrdiff_t) off] = (char) off;
}

// suspend and get woken by another task
static void real_suspend()
{
    auto l = std::make_shared<pika::latch>(1);
    ex::execute(ex::thread_pool_scheduler{}, [l] { l->count_down(1); });
    l->wait();
    g_suspends++;
}

__attribute__((noinline)) static void recurse(std::uint64_t id, int depth, int yield_at, rng& r, void const* self0)
{
    std::uint64_t canary[24];
    for (int i = 0; i < 24; ++i) canary[i] = id * 0x9E3779B97F4A7C15ull + depth * 131 + i;
    asm volatile("" ::"r"(canary) : "memory");
    if (depth == yield_at)
    {
        unsigned w0 = pika::get_worker_thread_num();
        int k = 1 + (int) r.below(3);
        for (int i = 0; i < k; ++i)
        {
            if (r.chance(1, 3)) real_suspend();
            else pika::this_thread::yield();
        }
        if (pika::get_worker_thread_num() != w0) g_migrations++;
        if (pika::threads::detail::get_self_id().get() != self0) vio("identity", "task id changed across a yield");
    }
    if (depth > 0) recurse(id, depth - 1, yield_at, r, self0);
    asm volatile("" ::"r"(canary) : "memory");
    for (int i = 0; i < 24; ++i)
        if (canary[i] != id * 0x9E3779B97F4A7C15ull + depth * 131 + i)
        {
            vio("stack-canary", sf("local variable at depth %d changed across a yield/suspension (task %lu)", depth, (unsigned long) id));
            break;
        }
    g_canary_checks++;
}

static std::atomic<std::uint64_t> g_exit_cb_owner_mismatch{0};
static std::vector<std::atomic<std::uint8_t>>* g_cb_count;    // exit callback runs per logical task id

static void task_body(std::uint64_t id, int cls, bool polluter)
{
    rng r(g_seed * 7919 + id);
    void const* self0 = pika::threads::detail::get_self_id().get();
    // ---- clean start (this thread object may have belonged to a polluting predecessor)
    if (pika::this_thread::interruption_requested()) vio("recycle:interruption-inherited", "a fresh task starts with an interruption request pending");
    if (!pika::this_thread::interruption_enabled()) vio("recycle:interruption-disabled-inherited", "a fresh task starts with interruption disabled");
    if (pika::this_thread::get_thread_data() != 0) vio("recycle:thread-data-inherited", sf("a fresh task starts with thread data %zu", pika::this_thread::get_thread_data()));
    g_clean_checks++;
    // ---- stack of the configured size, usable, disjoint
    char local;
    std::ptrdiff_t conf = pika::this_thread::get_stack_size();
    std::ptrdiff_t avail = pika::this_thread::get_available_stack_space();
    if (conf != g_conf[cls]) vio("stack-size", sf("task of stack class %d reports stack size %ld, configured %ld", cls, (long) conf, (long) g_conf[cls]));
    if (avail < (conf * 9) / 10 || avail > conf) vio("stack-size", sf("available stack %ld at task entry for a configured size of %ld", (long) avail, (long) conf));
    srange rg{(std::uintptr_t) &local - (std::uintptr_t) avail, (std::uintptr_t) &local + 64, id};
    {
        std::lock_guard<std::mutex> l(g_reg_m);
        for (auto& o : g_live)
            if (rg.lo < o.hi && o.lo < rg.hi)
            {
                vio("stack-overlap", sf("stack ranges of two live tasks intersect: [%lx,%lx) task %lu and [%lx,%lx) task %lu", (unsigned long) rg.lo, (unsigned long) rg.hi,
                                        (unsigned long) id, (unsigned long) o.lo, (unsigned long) o.hi, (unsigned long) o.id));
                break;
            }
        g_live.push_back(rg);
    }
    if (r.chance(1, 3)) touch_down(&local - 512, (std::size_t) ((avail * 85) / 100));    // a short stack faults here (crash = witness)
    g_stack_checks++;
    // ---- exit callback bound to this logical task
    pika::threads::detail::add_thread_exit_callback(pika::threads::detail::get_self_id(), [id] {
        (*g_cb_count)[id].fetch_add(1);
        g_exit_cb_runs++;
    });
    // ---- registers across a yield
    {
        std::uint64_t out[6] = {0, 0, 0, 0, 0, 0};
        std::uint64_t pat = 0xA5A5000000000000ull + id * 16;
        verif_call_with_regs(&yield_fn, pat, out);
        static char const* const nm[6] = {"r12", "r13", "r14", "r15", "rbx", "rbp"};
        for (int i = 0; i < 6; ++i)
            if (out[i] != pat + i) vio(std::string("register:") + nm[i], sf("callee-saved register %s changed across a yield: %lx -> %lx", nm[i], (unsigned long) (pat + i), (unsigned long) out[i]));
        g_reg_checks++;
    }
    // ---- canaries at depth
    int depth = (int) r.below(cls == 0 ? 12 : 40);
    recurse(id, depth, (int) r.below(depth + 1), r, self0);
    // ---- pollute on the way out (the successor that recycles this object must not see any of it)
    if (polluter)
    {
        pika::this_thread::set_thread_data(0xBAD0000 + id);
        g_polluters++;
    }
    {
        std::lock_guard<std::mutex> l(g_reg_m);
        for (std::size_t i = 0; i < g_live.size(); ++i)
            if (g_live[i].id == id)
            {
                g_live.erase(g_live.begin() + i);
                break;
            }
    }
    g_done++;
}

// interruption that is requested but never delivered (polled cancellation / late interrupt): must not leak into the next user
static void interrupt_polluter(std::uint64_t seed)
{
    rng r(seed);
    auto started = std::make_shared<pika::latch>(1);
    auto go = std::make_shared<pika::latch>(1);
    pika::thread t([started, go] {
        started->count_down(1);
        go->wait();
        // polls the flag instead of passing an interruption point, then returns normally
        volatile bool req = pika::this_thread::interruption_requested();
        (void) req;
    });
    if (!t.joinable())
    {
        go->count_down(1);
        t.detach();
        return;
    }
    started->wait();
    bool late = r.chance(1, 2);
    if (!late)
    {
        try
        {
            t.interrupt();
        }
        catch (...)
        {
        }
    }
    go->count_down(1);
    if (late)
    {
        for (int i = 0; i < 3; ++i) pika::this_thread::yield();
        try
        {
            t.interrupt();    // after the function (probably) returned, before the join
        }
        catch (...)
        {
        }
    }
    t.join();
    g_polluters++;
}

// FP control state across a yield (mode "fp")
static void fp_body(std::uint64_t id)
{
    int mode = (id & 1) ? FE_UPWARD : FE_DOWNWARD;
    std::fesetround(mode);
    for (int i = 0; i < 8; ++i)
    {
        pika::this_thread::yield();
        if (std::fegetround() != mode)
        {
            vio("fp-control-not-saved", sf("rounding mode set by the task (%d) changed to %d across a yield", mode, std::fegetround()));
            std::fesetround(mode);
        }
        g_fp_checks++;
    }
    std::fesetround(FE_TONEAREST);
    g_done++;
}

int main(int argc, char** argv)
{
    args_t a(argc, argv);
    report.property = "C12";
    runtime_cfg cfg;
    cfg.scheduler = a.str("scheduler", "local-priority-fifo");
    cfg.threads = (unsigned) a.u64("threads", 4);
    cfg.bind_none = !a.has("bind");
    std::string mode = a.str("mode", "context");
    std::uint64_t tasks = a.u64("tasks", 6000);
    // configured stack sizes (bytes); 0 = leave the default
    std::uint64_t cs[4] = {a.u64("small", 0), a.u64("medium", 0), a.u64("large", 0), a.u64("huge", 0)};
    static char const* const key[4] = {"small_size", "medium_size", "large_size", "huge_size"};
    for (int i = 0; i < 4; ++i)
        if (cs[i]) cfg.extra.push_back(sf("--pika:ini=pika.stacks.%s=0x%lx", key[i], (unsigned long) cs[i]));
    g_guard = a.u64("guard", 1) != 0;
    cfg.extra.push_back(sf("--pika:ini=pika.stacks.use_guard_pages=%d", g_guard ? 1 : 0));
    cfg.extra.push_back("--pika:ini=pika.thread_queue.max_terminated_threads=8");    // recycle early and often
    install_hooks();
    if (a.str("perturb", "light") == "light") g_perturb.set_all(0.003, 30);
    std::vector<std::atomic<std::uint8_t>> cbc(tasks + 16);
    g_cb_count = &cbc;
    report.cases = 1;
    {
        runtime rt(cfg);
        auto* sched_base = pika::resource::get_thread_pool("default").get_scheduler();
        static thread_stacksize const cls_enum[4] = {thread_stacksize::small_, thread_stacksize::medium, thread_stacksize::large, thread_stacksize::huge};
        for (int i = 0; i < 4; ++i)
        {
            g_conf[i] = sched_base->get_stack_size(cls_enum[i]);
            if (cs[i] && (std::uint64_t) g_conf[i] != cs[i])
                vio("stack-size:config", sf("pika.stacks.%s=0x%lx requested, scheduler uses %ld", key[i], (unsigned long) cs[i], (long) g_conf[i]));
        }
        rng r(g_seed);
        std::uint64_t launched = 0;
        std::uint64_t batch = 256;
        bool ok = true;
        while (launched < tasks && ok)
        {
            std::uint64_t n = std::min(batch, tasks - launched);
            for (std::uint64_t i = 0; i < n; ++i)
            {
                std::uint64_t id = launched + i;
                if (mode == "fp")
                {
                    ex::execute(ex::thread_pool_scheduler{}, [id] { fp_body(id); });
                    continue;
                }
                int cls = (int) r.below(10);
                cls = cls < 6 ? 0 : (cls < 8 ? 1 : (cls < 9 ? 2 : 3));
                bool polluter = r.chance(1, 3);
                auto s = ex::with_stacksize(ex::thread_pool_scheduler{}, cls_enum[cls]);
                if (r.chance(1, 4)) s = ex::with_priority(s, pika::execution::thread_priority::high);
                ex::execute(s, [id, cls, polluter] { task_body(id, cls, polluter); });
            }
            launched += n;
            if (mode != "fp" && r.chance(1, 2))
            {
                std::uint64_t sd = r.next();
                ex::execute(ex::thread_pool_scheduler{}, [sd] {
                    rng rr(sd);
                    for (int k = 0; k < 8; ++k) interrupt_polluter(rr.next());
                });
            }
            auto wr = wait_quiescent([&] { return g_done.load() >= launched; }, [&] { return g_done.load() + g_canary_checks.load(); }, 40.0);
            if (wr != wait_result::done)
            {
                vio(std::string("hang") + (wr == wait_result::deadlock ? ":deadlock" : ":stalled"), sf("%lu of %lu tasks finished; %s", (unsigned long) g_done.load(), (unsigned long) launched, pool_state().c_str()));
                ok = false;
            }
        }
        if (ok) pika::wait();
        if (ok && mode != "fp")
            for (std::uint64_t id = 0; id < tasks; ++id)
                if (cbc[id].load() != 1)
                {
                    vio(cbc[id].load() == 0 ? "exit-callback:lost" : "recycle:exit-callback-inherited", sf("exit callback of task %lu ran %d times", (unsigned long) id, (int) cbc[id].load()));
                    break;
                }
        auto t = totals();
        report.add("tasks", g_done.load());
        report.add("canary_frames_checked", g_canary_checks.load());
        report.add("register_checks", g_reg_checks.load());
        report.add("stack_checks", g_stack_checks.load());
        report.add("clean_start_checks", g_clean_checks.load());
        report.add("fp_checks", g_fp_checks.load());
        report.add("exit_callbacks_run", g_exit_cb_runs.load());
        report.bit("migration_across_yield", g_migrations.load());
        report.bit("recycled_thread_object", t.hits[pv::tq_reuse]);
        report.bit("polluting_predecessor", g_polluters.load());
        report.bit("real_suspension", g_suspends.load());
        report.bit("steal", t.steals);
        report.bit("fp", g_fp_checks.load());
        std::string sig = cfg.describe() + "|" + mode + "|";
        for (auto& kv : report.bits) sig += kv.second ? "1" : "0";
        report.signature(sig);
        report.sample(sf("{\"cfg\":\"%s\",\"mode\":\"%s\",\"tasks\":%lu,\"stack_sizes\":[%ld,%ld,%ld,%ld],\"guard_pages\":%d,\"migrations\":%lu,\"recycled\":%lu}",
            cfg.describe().c_str(), mode.c_str(), (unsigned long) g_done.load(), (long) g_conf[0], (long) g_conf[1], (long) g_conf[2], (long) g_conf[3], (int) g_guard,
            (unsigned long) g_migrations.load(), (unsigned long) t.hits[pv::tq_reuse]));
        if (!ok) bail(0);
    }
    report.emit();
    return 0;
}
