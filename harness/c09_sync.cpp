// C09: latch, barrier, event and call_once release exactly when due.
// Shadow counters are moved *before* the real arrival and read *after* the real departure, so a departure that
// observes an incomplete shadow is a real early release; stuck waiters are decided by the quiescence watchdog.
#include "common/verif.hpp"

#include <pika/barrier.hpp>
#include <pika/latch.hpp>
#include <pika/synchronization/event.hpp>
#include <pika/synchronization/once.hpp>

#include <condition_variable>
#include <deque>
#include <mutex>

using namespace verif;

static std::string g_mode;
static void vio(std::string const& what, std::string const& detail) { report.violation("C09:" + what, detail); }
static std::atomic<std::uint64_t> g_progress{0};

// ---- OS-thread job pool
static std::mutex g_osq_m;
static std::condition_variable g_osq_cv;
static std::deque<std::function<void()>> g_osq;
static bool g_osq_stop = false;
static void os_loop()
{
    for (;;)
    {
        std::function<void()> job;
        {
            std::unique_lock<std::mutex> l(g_osq_m);
            g_osq_cv.wait(l, [] { return g_osq_stop || !g_osq.empty(); });
            if (g_osq.empty()) return;
            job = std::move(g_osq.front());
            g_osq.pop_front();
        }
        job();
        external_end();
    }
}
static void os_submit(std::function<void()> f)
{
    external_begin();
    {
        std::lock_guard<std::mutex> l(g_osq_m);
        g_osq.push_back(std::move(f));
    }
    g_osq_cv.notify_one();
}
template <typename F>
static void launch(bool os, F&& f)
{
    if (os) os_submit(std::forward<F>(f));
    else ex::execute(ex::thread_pool_scheduler{}, std::forward<F>(f));
}
// jobs that may block get their own plain thread (the small pool above is for non-blocking jobs only)
static std::atomic<std::uint64_t> g_os_blocking{0};
template <typename F>
static void launch_blocking(bool os, F&& f)
{
    if (!os)
    {
        ex::execute(ex::thread_pool_scheduler{}, std::forward<F>(f));
        return;
    }
    external_begin();
    g_os_blocking++;
    std::thread([f = std::forward<F>(f)]() mutable {
        f();
        external_end();
    }).detach();
}

// =============================================================================== latch
struct latch_round
{
    pika::latch l;
    std::atomic<std::int64_t> shadow;    // <= real counter at all times (lowered before the real arrival)
    int count;
    std::atomic<int> actors_left{0};
    std::atomic<int> waits_returned{0}, waits_started{0};
    std::atomic<bool> late_launched{false};
    explicit latch_round(int c)
      : l(c)
      , shadow(c)
      , count(c)
    {
    }
};
static std::atomic<std::uint64_t> g_latch_waits{0}, g_latch_late{0};

static void latch_departed(latch_round* rd, char const* how)
{
    std::int64_t s = rd->shadow.load();
    if (s > 0) vio(std::string("latch:early-release:") + how, sf("%s returned while %ld arrivals were still outstanding (count %d)", how, (long) s, rd->count));
    if (!rd->l.try_wait()) vio("latch:try_wait", "try_wait() false after wait() returned");
    rd->waits_returned++;
    g_latch_waits++;
}

static void latch_actor_done(latch_round* rd)
{
    g_progress++;
    if (rd->actors_left.fetch_sub(1) == 1) delete rd;    // destroying the latch right after the last wait returned is legal
}

static bool run_latch(runtime_cfg const& cfg, std::uint64_t rounds, std::uint64_t batch, unsigned os_share)
{
    rng r(g_seed);
    std::uint64_t started = 0;
    std::atomic<std::uint64_t> launched_actors{0};
    while (started < rounds)
    {
        std::uint64_t n = std::min(batch, rounds - started);
        std::uint64_t base_progress = g_progress.load();
        std::uint64_t expect_min = 0;
        std::vector<latch_round*> live;
        for (std::uint64_t i = 0; i < n; ++i)
        {
            int count = 1 + (int) r.below(r.chance(1, 3) ? 100 : 8);
            auto* rd = new latch_round(count);
            live.push_back(rd);
            // split the count into arrivals
            struct arrival
            {
                int k;
                int how;    // 0 count_down, 1 arrive_and_wait
                bool os;
            };
            std::vector<arrival> arr;
            int left = count;
            while (left > 0)
            {
                int k = r.chance(1, 2) ? 1 : 1 + (int) r.below(left);
                arr.push_back({k, (int) r.below(2), r.below(100) < os_share});
                left -= k;
            }
            int pure_waiters = (int) r.below(4);
            bool late_os = r.below(100) < os_share;
            int late = 1 + (int) r.below(3);
            rd->actors_left = (int) arr.size() + pure_waiters;
            expect_min += arr.size() + pure_waiters + late;
            for (int wv = 0; wv < pure_waiters; ++wv)
            {
                rd->waits_started++;
                launch(false, [rd] {
                    rd->l.wait();
                    latch_departed(rd, "wait");
                    latch_actor_done(rd);
                });
            }
            for (auto a : arr)
            {
                if (a.how == 1) rd->waits_started++;
                auto arrival_job = [rd, a, late, late_os] {
                    std::int64_t after = rd->shadow.fetch_sub(a.k) - a.k;
                    bool last = after == 0;
                    // the arrival that completes the latch first registers the late waiters as actors so that the round
                    // object outlives them
                    if (last) rd->actors_left.fetch_add(late), rd->late_launched = true;
                    if (a.how == 0) rd->l.count_down(a.k);
                    else
                    {
                        rd->l.arrive_and_wait(a.k);
                        latch_departed(rd, "arrive_and_wait");
                    }
                    if (last)
                    {
                        // waiters that come after the count reached zero must pass at once
                        for (int i = 0; i < late; ++i)
                        {
                            rd->waits_started++;
                            launch_blocking(late_os && (i & 1), [rd] {
                                rd->l.wait();
                                latch_departed(rd, "late-wait");
                                g_latch_late++;
                                latch_actor_done(rd);
                            });
                        }
                    }
                    latch_actor_done(rd);
                };
                if (a.how == 1) launch_blocking(a.os, arrival_job);
                else launch(a.os, arrival_job);
            }
        }
        started += n;
        std::uint64_t target = base_progress + expect_min;
        auto wr = wait_quiescent([&] { return g_progress.load() >= target; }, [&] { return g_progress.load(); }, 40.0);
        if (wr != wait_result::done)
        {
            vio(std::string("latch:stuck-waiter") + (wr == wait_result::deadlock ? ":deadlock" : ":stalled"),
                sf("%lu of %lu latch participants finished; some wait()/arrive_and_wait() never returned although every arrival was issued; cfg=%s %s",
                    (unsigned long) (g_progress.load() - base_progress), (unsigned long) expect_min, cfg.describe().c_str(), pool_state().c_str()));
            return false;
        }
    }
    (void) launched_actors;
    report.add("latch_waits_returned", g_latch_waits.load());
    report.add("latch_late_waits", g_latch_late.load());
    report.bit("latch_late_waiter", g_latch_late.load());
    return true;
}

// =============================================================================== barrier
struct barrier_case;
struct completion_fn
{
    barrier_case* bc;
    void operator()() noexcept;
};
struct barrier_case
{
    int P = 0, phases = 0;
    std::vector<int> drop_at;                        // phase in which participant i drops (== phases: never)
    std::vector<std::atomic<int>> arrived;           // shadow, raised before the real arrival
    std::vector<std::atomic<int>> completed;         // completion function invocations per phase
    std::vector<std::atomic<int>> departed;
    std::vector<int> expected;
    std::vector<std::uint64_t> cell;                 // plain per-phase cells: written before arrive, read after depart (TSan)
    std::atomic<int> cur_phase{0};
    std::unique_ptr<pika::barrier<completion_fn>> bar;
    barrier_case(int p, int ph)
      : P(p)
      , phases(ph)
      , drop_at(p, ph)
      , arrived(ph + 1)
      , completed(ph + 1)
      , departed(ph + 1)
      , expected(ph + 1, 0)
      , cell(std::size_t(p) * (ph + 1), 0)
    {
    }
};
void completion_fn::operator()() noexcept
{
    int k = bc->cur_phase.load();
    if (bc->arrived[k].load() != bc->expected[k])
        vio("barrier:completion-early", sf("completion of phase %d ran with %d of %d arrivals", k, bc->arrived[k].load(), bc->expected[k]));
    if (bc->departed[k].load() != 0) vio("barrier:completion-late", sf("completion of phase %d ran after %d participants had left it", k, bc->departed[k].load()));
    bc->completed[k]++;
    bc->cur_phase = k + 1;
}

static std::atomic<std::uint64_t> g_bar_departures{0}, g_bar_drops{0}, g_bar_split{0};

static void barrier_participant(barrier_case* bc, int me, std::uint64_t seed, bool is_task)
{
    rng r(seed);
    for (int k = 0; k < bc->phases; ++k)
    {
        bc->cell[std::size_t(me) * (bc->phases + 1) + k] = 0xB000 + k;    // plain write, published by the arrival
        bc->arrived[k]++;
        if (bc->drop_at[me] == k)
        {
            bc->bar->arrive_and_drop();
            g_bar_drops++;
            g_progress++;
            return;
        }
        int how = (int) r.below(3);
        if (how == 0) bc->bar->arrive_and_wait();
        else
        {
            auto tok = bc->bar->arrive();
            if (is_task && r.chance(1, 2)) pika::this_thread::yield();
            bc->bar->wait(std::move(tok));
            g_bar_split++;
        }
        // departed from phase k
        if (bc->arrived[k].load() != bc->expected[k])
            vio("barrier:early-release", sf("left phase %d after %d of %d arrivals (participants %d)", k, bc->arrived[k].load(), bc->expected[k], bc->P));
        if (bc->completed[k].load() != 1)
            vio("barrier:completion-count", sf("completion function ran %d times for phase %d before a participant left it", bc->completed[k].load(), k));
        // every still-active participant wrote its cell for phase k before arriving
        for (int other = 0; other < bc->P; ++other)
            if (bc->drop_at[other] >= k && bc->cell[std::size_t(other) * (bc->phases + 1) + k] != std::uint64_t(0xB000 + k))
                vio("barrier:visibility", sf("write made by participant %d before arriving at phase %d not visible after the barrier", other, k));
        bc->departed[k]++;
        g_bar_departures++;
        if (is_task && r.chance(1, 3)) pika::this_thread::yield();
    }
    g_progress++;
}

static bool run_barrier(runtime_cfg const& cfg, int reps, unsigned os_share, int max_phases)
{
    rng r(g_seed);
    for (int rep = 0; rep < reps; ++rep)
    {
        int P = 1 + (int) r.below(r.chance(1, 3) ? 40 : 9);
        int phases = 1 + (int) r.below(max_phases);
        auto bc = std::make_unique<barrier_case>(P, phases);
        // drops: at least one participant stays to the end
        for (int i = 1; i < P; ++i)
            if (r.chance(1, 4)) bc->drop_at[i] = (int) r.below(phases);
        for (int k = 0; k < phases; ++k)
            for (int i = 0; i < P; ++i)
                if (bc->drop_at[i] >= k) bc->expected[k]++;
        bc->bar = std::make_unique<pika::barrier<completion_fn>>(P, completion_fn{bc.get()});
        std::uint64_t expect = g_progress.load() + P;
        std::vector<std::thread> os;
        int n_os = r.below(100) < os_share ? (int) r.below(std::min(P, 3) + 1) : 0;
        for (int i = 0; i < P; ++i)
        {
            if (i < n_os)
            {
                external_begin();
                os.emplace_back([&, i] {
                    barrier_participant(bc.get(), i, g_seed * 7 + i, false);
                    external_end();
                });
            }
            else
                ex::execute(ex::thread_pool_scheduler{}, [&, i] { barrier_participant(bc.get(), i, g_seed * 7 + i, true); });
        }
        report.bit("barrier_os_participant", n_os);
        if (P > (int) cfg.threads) report.bit("barrier_more_participants_than_workers");
        auto wr = wait_quiescent([&] { return g_progress.load() >= expect; }, [&] { return g_progress.load(); }, 40.0);
        if (wr != wait_result::done)
        {
            vio(std::string("barrier:stuck") + (wr == wait_result::deadlock ? ":deadlock" : ":stalled"),
                sf("barrier with %d participants, %d phases stuck in phase %d (arrived %d of %d); cfg=%s %s", P, phases, bc->cur_phase.load(),
                    bc->arrived[std::min(bc->cur_phase.load(), phases)].load(), bc->expected[std::min(bc->cur_phase.load(), phases)],
                    cfg.describe().c_str(), pool_state().c_str()));
            for (auto& t : os) t.detach();
            bc.release();
            return false;
        }
        for (auto& t : os) t.join();
        for (int k = 0; k < phases; ++k)
            if (bc->completed[k].load() != 1) vio("barrier:completion-count", sf("completion ran %d times for phase %d", bc->completed[k].load(), k));
    }
    report.add("barrier_departures", g_bar_departures.load());
    report.add("barrier_drops", g_bar_drops.load());
    report.bit("barrier_drop", g_bar_drops.load());
    report.bit("barrier_split_arrive_wait", g_bar_split.load());
    return true;
}

// =============================================================================== event
static bool run_event(runtime_cfg const& cfg, int reps, unsigned os_share)
{
    rng r(g_seed);
    for (int rep = 0; rep < reps; ++rep)
    {
        auto ev = std::make_unique<pika::experimental::event>();
        std::atomic<bool> shadow_set{false};
        int W = 1 + (int) r.below(24);
        int late = 1 + (int) r.below(4);
        std::atomic<int> registered{0};
        std::uint64_t expect = g_progress.load() + W + late;
        bool os_setter = r.below(100) < os_share;
        for (int w = 0; w < W; ++w)
            launch_blocking(r.below(100) < os_share / 2, [&, W, late, os_setter] {
                if (registered.fetch_add(1) + 1 == W)
                    launch(os_setter, [&, late] {
                        shadow_set = true;
                        ev->set();
                        for (int i = 0; i < late; ++i)
                            launch(false, [&] {
                                ev->wait();    // future waiter of a set event
                                if (!ev->occurred()) vio("event:occurred", "occurred() false after wait() returned");
                                g_progress++;
                            });
                    });
                ev->wait();
                if (!shadow_set.load()) vio("event:early-release", "wait() returned before set() was called");
                g_progress++;
            });
        auto wr = wait_quiescent([&] { return g_progress.load() >= expect; }, [&] { return g_progress.load(); }, 40.0);
        if (wr != wait_result::done)
        {
            vio(std::string("event:stuck-waiter") + (wr == wait_result::deadlock ? ":deadlock" : ":stalled"),
                sf("event set=%d but only %lu of %d waiters released; cfg=%s %s", (int) shadow_set.load(), (unsigned long) (g_progress.load() + W + late - expect), W + late,
                    cfg.describe().c_str(), pool_state().c_str()));
            ev.release();
            return false;
        }
        report.add("event_waiters", W + late);
    }
    return true;
}

// =============================================================================== call_once
static bool run_once(runtime_cfg const& cfg, int reps, unsigned os_share)
{
    rng r(g_seed);
    for (int rep = 0; rep < reps; ++rep)
    {
        auto flag = std::make_unique<pika::once_flag>();
        int N = 2 + (int) r.below(63);
        int throw_first = (int) r.below(4);
        if (N <= throw_first) N = throw_first + 1;
        std::atomic<int> attempts{0}, successes{0}, thrown_to_callers{0}, returned{0}, running{0};
        std::atomic<bool> done{false};
        std::uint64_t expect = g_progress.load() + N;
        for (int c = 0; c < N; ++c)
            launch_blocking(r.below(100) < os_share / 2, [&, throw_first] {
                try
                {
                    pika::call_once(*flag, [&] {
                        if (running.fetch_add(1) != 0) vio("once:concurrent-bodies", "two invocations of the callable ran at the same time");
                        int a = attempts.fetch_add(1);
                        if (done.load()) vio("once:ran-after-success", "callable invoked again after a successful invocation");
                        spin_us(5);
                        running.fetch_sub(1);
                        if (a < throw_first) throw std::runtime_error("retry");
                        successes++;
                        done = true;
                    });
                    if (!done.load()) vio("once:early-return", "call_once returned before the successful invocation finished");
                    returned++;
                }
                catch (std::runtime_error const&)
                {
                    thrown_to_callers++;
                }
                g_progress++;
            });
        auto wr = wait_quiescent([&] { return g_progress.load() >= expect; }, [&] { return g_progress.load(); }, 40.0);
        if (wr != wait_result::done)
        {
            vio(std::string("once:stuck-caller") + (wr == wait_result::deadlock ? ":deadlock" : ":stalled"),
                sf("call_once with %d callers (%d throwing attempts): %d returned, %d got the exception; cfg=%s %s", N, throw_first, returned.load(),
                    thrown_to_callers.load(), cfg.describe().c_str(), pool_state().c_str()));
            flag.release();
            return false;
        }
        if (successes.load() != 1) vio("once:success-count", sf("callable completed successfully %d times", successes.load()));
        if (thrown_to_callers.load() != throw_first)
            vio("once:exception-count", sf("%d throwing attempts but %d callers received the exception", throw_first, thrown_to_callers.load()));
        if (returned.load() + thrown_to_callers.load() != N) vio("once:lost-caller", "caller count mismatch");
        report.add("once_callers", N);
        if (throw_first) report.bit("once_retry_after_throw");
    }
    return true;
}

int main(int argc, char** argv)
{
    args_t a(argc, argv);
    report.property = "C09";
    runtime_cfg cfg;
    cfg.scheduler = a.str("scheduler", "local-priority-fifo");
    cfg.threads = (unsigned) a.u64("threads", 4);
    cfg.bind_none = !a.has("bind");
    g_mode = a.str("mode", "latch");
    std::string profile = a.str("perturb", "sync");
    unsigned os_share = (unsigned) a.u64("os", 25);
    install_hooks();
    if (profile == "sync")
    {
        g_perturb.set(pv::latch_zero_before_lock, 0.4, 80);
        g_perturb.set(pv::latch_before_notify, 0.3, 60);
        g_perturb.set(pv::barrier_between_cas, 0.05, 30);
        g_perturb.set(pv::barrier_after_completion, 0.3, 60);
        g_perturb.set(pv::once_after_status_done, 0.4, 80);
        g_perturb.set(pv::once_after_status_reset, 0.6, 120);
        g_perturb.set(pv::cv_notify_one, 0.1, 40);
        g_perturb.set(pv::cv_notify_all, 0.1, 40);
        g_perturb.set(pv::cv_wait_enqueued, 0.15, 60);
    }
    else if (profile == "light")
        g_perturb.set_all(0.004, 40);
    report.cases = 1;
    bool ok = true;
    {
        runtime rt(cfg);
        std::vector<std::thread> ospool;
        for (int i = 0; i < 3; ++i) ospool.emplace_back(os_loop);
        if (g_mode == "latch") ok = run_latch(cfg, a.u64("rounds", 300), a.u64("batch", 16), os_share);
        else if (g_mode == "barrier") ok = run_barrier(cfg, (int) a.u64("reps", 40), os_share, (int) a.u64("phases", 60));
        else if (g_mode == "event") ok = run_event(cfg, (int) a.u64("reps", 200), os_share);
        else if (g_mode == "once") ok = run_once(cfg, (int) a.u64("reps", 200), os_share);
        auto t = totals();
        report.bit("os_thread_waiter", g_os_blocking.load());
        report.bit("latch_zero_window", t.hits[pv::latch_zero_before_lock]);
        report.bit("blocked_waiter", t.hits[pv::cv_wait_enqueued]);
        report.bit("barrier_cas", t.hits[pv::barrier_between_cas]);
        report.bit("once_throw_path", t.hits[pv::once_after_status_reset]);
        report.bit("resume_found_target_active", t.hits[pv::sts_active_helper]);
        std::string sig = cfg.describe() + "|" + g_mode + "|" + profile + "|";
        for (auto& kv : report.bits) sig += kv.second ? "1" : "0";
        report.signature(sig);
        report.sample(sf("{\"cfg\":\"%s\",\"mode\":\"%s\",\"perturb\":\"%s\",\"participants_finished\":%lu}", cfg.describe().c_str(), g_mode.c_str(),
            profile.c_str(), (unsigned long) g_progress.load()));
        if (!ok) bail(0);
        {
            std::lock_guard<std::mutex> l(g_osq_m);
            g_osq_stop = true;
        }
        g_osq_cv.notify_all();
        for (auto& th : ospool) th.join();
        pika::wait();
    }
    report.emit();
    return 0;
}
