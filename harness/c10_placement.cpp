// C10: work runs where it was sent.  Random pool layouts from the resource partitioner, random hop pipelines built at
// run time (type-erased) over schedule / continues_on / transfer_just / execute / bulk on pool schedulers, hints and
// priorities, yields and real suspensions inside callables; every callable records where it runs and compares with the
// placement the pipeline denotes.
#include "common/verif.hpp"

#include <pika/execution_base/any_sender.hpp>
#include <pika/executors/std_thread_scheduler.hpp>
#include <pika/latch.hpp>
#include <pika/semaphore.hpp>

#include <condition_variable>
#include <deque>
#include <mutex>
#include <pika/threading_base/thread_num_tss.hpp>

#include <sys/syscall.h>

using namespace verif;

static void vio(std::string const& what, std::string const& detail) { report.violation("C10:" + what, detail); }

struct pool_info
{
    std::string name;
    int policy;
    unsigned size;
    pika::threads::detail::thread_pool_base* pool = nullptr;
    std::size_t index = 0;
    bool is_static() const { return policy == pika::resource::static_ || policy == pika::resource::static_priority; }
};
static std::vector<pool_info> g_pools;
static std::atomic<std::uint64_t> g_callables{0}, g_phases{0}, g_hinted_phases{0}, g_suspensions{0}, g_bulk_calls{0}, g_std_thread{0}, g_pipelines{0},
    g_done{0}, g_executes{0};

static long gettid_() { return syscall(SYS_gettid); }

struct submit_marker
{
    std::atomic<long> tid{0};
    std::atomic<bool> in_submit{false};
};

// what one callable is supposed to observe
struct expect
{
    int pool = 0;          // index into g_pools, -1: std_thread_scheduler (no pika thread)
    int hint = -1;         // local worker (only meaningful on static pools with normal priority)
    bool normal_priority = true;
    submit_marker* sm = nullptr;
    char const* via = "";
};

static std::string where_now()
{
    return sf("pool_tss=%zu local=%zu task=%p tid=%ld", pika::threads::detail::get_thread_pool_num_tss(), pika::get_local_worker_thread_num(),
        (void*) pika::threads::detail::get_self_id().get(), gettid_());
}

static void check_place(expect const& e, char const* phase)
{
    g_phases++;
    if (e.sm && e.sm->in_submit.load() && e.sm->tid.load() == gettid_())
        vio(std::string("inline-in-submitter:") + e.via, sf("callable reached through %s executed inside the call that submitted it (%s) %s", e.via, phase, where_now().c_str()));
    if (e.pool < 0)
    {
        if (pika::threads::detail::get_self_ptr() != nullptr) vio("std-thread-scheduler:on-pika-task", "std_thread_scheduler work is running as a pika task: " + where_now());
        if (pika::threads::detail::get_thread_pool_num_tss() != std::size_t(-1)) vio("std-thread-scheduler:on-pika-worker", "std_thread_scheduler work is running on a pika worker thread: " + where_now());
        return;
    }
    auto const& p = g_pools[e.pool];
    if (pika::threads::detail::get_self_ptr() == nullptr)
    {
        vio(std::string("not-a-task:") + e.via, sf("callable sent to pool '%s' via %s is not running as a pika task (%s) %s", p.name.c_str(), e.via, phase, where_now().c_str()));
        return;
    }
    if (pika::threads::detail::get_thread_pool_num_tss() != p.index)
        vio(std::string("wrong-pool:") + e.via, sf("callable sent to pool '%s'(%zu, %s) via %s runs elsewhere (%s): %s", p.name.c_str(), p.index,
                                                   pika::resource::detail::get_scheduling_policy_name((pika::resource::scheduling_policy) p.policy), e.via, phase, where_now().c_str()));
    if (e.hint >= 0 && p.is_static() && e.normal_priority)
    {
        g_hinted_phases++;
        if (pika::get_local_worker_thread_num() != (std::size_t) e.hint)
            vio(std::string("wrong-worker:static-hint:") + phase,
                sf("normal-priority task hinted to worker %d of static pool '%s' (size %u, %s) runs a phase (%s) on local worker %zu: %s", e.hint, p.name.c_str(), p.size,
                    pika::resource::detail::get_scheduling_policy_name((pika::resource::scheduling_policy) p.policy), phase, pika::get_local_worker_thread_num(), where_now().c_str()));
    }
}

// ---- plain OS thread that releases semaphores as fast as it can: its wake-ups tend to find the target still 'active'
// (registered as a waiter, not yet switched out), which takes the helper-task branch of set_thread_state
static std::mutex g_wq_m;
static std::condition_variable g_wq_cv;
static std::deque<std::shared_ptr<pika::counting_semaphore<>>> g_wq;
static bool g_wq_stop = false;
static std::atomic<std::uint64_t> g_fast_wakeups{0};
static void os_waker_loop()
{
    for (;;)
    {
        std::shared_ptr<pika::counting_semaphore<>> sem;
        {
            std::unique_lock<std::mutex> l(g_wq_m);
            g_wq_cv.wait(l, [] { return g_wq_stop || !g_wq.empty(); });
            if (g_wq.empty()) return;
            sem = std::move(g_wq.front());
            g_wq.pop_front();
        }
        sem->release();
        external_end();
    }
}
static void fast_suspensions(expect const& e, rng& r)
{
    int k = 4 + (int) r.below(20);
    auto sem = std::make_shared<pika::counting_semaphore<>>(0);
    for (int i = 0; i < k; ++i)
    {
        external_begin();
        {
            std::lock_guard<std::mutex> l(g_wq_m);
            g_wq.push_back(sem);
        }
        g_wq_cv.notify_one();
        sem->acquire();
        g_fast_wakeups++;
        check_place(e, "after-fast-wakeup");
    }
}

// body of a callable: entry check, then some yields and possibly a real suspension (woken from another pool), checking after each
static void callable_body(expect e, std::uint64_t seed)
{
    g_callables++;
    rng r(seed);
    check_place(e, "entry");
    if (e.pool < 0) return;
    int y = (int) r.below(3);
    for (int i = 0; i < y; ++i)
    {
        pika::this_thread::yield();
        check_place(e, "after-yield");
    }
    if (r.chance(1, 3))
    {
        // really suspend; the wake-up comes from a task on some (other) pool
        auto l = std::make_shared<pika::latch>(1);
        int other = (int) r.below(g_pools.size());
        ex::execute(ex::thread_pool_scheduler{g_pools[other].pool}, [l] { l->count_down(1); });
        l->wait();
        g_suspensions++;
        check_place(e, "after-suspension");
        if (r.chance(1, 2))
        {
            pika::this_thread::yield();
            check_place(e, "after-suspension-yield");
        }
    }
    // bursts of suspensions whose wake-up comes immediately from a plain OS thread
    if (r.chance(1, 4)) fast_suspensions(e, r);
}

using any_void = ex::unique_any_sender<>;

static ex::thread_pool_scheduler make_sched(rng& r, expect& e)
{
    int pi = (int) r.below(g_pools.size());
    auto const& p = g_pools[pi];
    ex::thread_pool_scheduler s{p.pool};
    e.pool = pi;
    e.hint = -1;
    e.normal_priority = true;
    if (r.chance(1, 2))
    {
        e.hint = (int) r.below(p.size);
        s = ex::with_hint(s, pika::execution::thread_schedule_hint((std::int16_t) e.hint));
    }
    if (r.chance(1, 4))
    {
        e.normal_priority = false;
        s = ex::with_priority(s, r.chance(1, 2) ? pika::execution::thread_priority::high : pika::execution::thread_priority::low);
    }
    if (r.chance(1, 5)) s = ex::with_stacksize(s, pika::execution::thread_stacksize::medium);
    return s;
}

static void run_pipeline(std::uint64_t seed, bool from_task)
{
    rng r(seed);
    auto sm = std::make_shared<submit_marker>();
    int hops = 1 + (int) r.below(6);
    expect e;
    e.sm = sm.get();
    auto sched = make_sched(r, e);
    e.via = "schedule";
    any_void s;
    std::uint64_t cs = r.next();
    if (r.chance(1, 2)) s = ex::schedule(sched) | ex::then([e, cs, sm] { callable_body(e, cs); });
    else
    {
        e.via = "transfer_just";
        s = ex::transfer_just(sched, 7) | ex::then([e, cs, sm](int v) {
            if (v != 7) vio("value", "transfer_just value changed");
            callable_body(e, cs);
        });
    }
    for (int h = 1; h < hops; ++h)
    {
        expect e2;
        e2.sm = sm.get();
        int kind = (int) r.below(10);
        std::uint64_t cs2 = r.next();
        if (kind < 6)
        {
            auto sc = make_sched(r, e2);
            e2.via = "continues_on";
            s = std::move(s) | ex::continues_on(sc) | ex::then([e2, cs2, sm] { callable_body(e2, cs2); });
        }
        else if (kind < 8)
        {
            auto sc = make_sched(r, e2);
            e2.via = "bulk";
            e2.hint = -1;    // bulk spreads chunks over the pool's workers
            int n = 1 + (int) r.below(40);
            s = std::move(s) | ex::continues_on(sc) | ex::bulk(n, [e2, sm](int) {
                g_bulk_calls++;
                check_place(e2, "bulk-call");
            });
        }
        else if (kind == 8)
        {
            // hop through a std::thread and come back
            e2.pool = -1;
            e2.via = "std_thread_scheduler";
            expect e3;
            e3.sm = sm.get();
            auto back = make_sched(r, e3);
            e3.via = "continues_on";
            std::uint64_t cs3 = r.next();
            s = std::move(s) | ex::continues_on(ex::std_thread_scheduler{}) | ex::then([e2, cs2, sm] {
                g_std_thread++;
                callable_body(e2, cs2);
            }) | ex::continues_on(back) |
                ex::then([e3, cs3, sm] { callable_body(e3, cs3); });
        }
        else
        {
            // then() without a hop keeps running where the predecessor completed: same expectation as before
            s = std::move(s) | ex::then([] {});
        }
    }
    s = std::move(s) | ex::then([sm] { g_done++; });
    g_pipelines++;
    sm->tid = gettid_();
    sm->in_submit = true;
    if (from_task && r.chance(1, 2))
    {
        // sync_wait from a task: the waiting task may legitimately run other work, the flag is cleared first
        sm->in_submit = false;
        tt::sync_wait(std::move(s));
    }
    else
    {
        ex::start_detached(std::move(s));
        sm->in_submit = false;
    }
    // plain execute with its own marker
    if (r.chance(1, 2))
    {
        auto sm2 = std::make_shared<submit_marker>();
        expect e4;
        e4.sm = sm2.get();
        auto sc = make_sched(r, e4);
        e4.via = "execute";
        std::uint64_t cs4 = r.next();
        g_pipelines++;
        g_executes++;
        sm2->tid = gettid_();
        sm2->in_submit = true;
        ex::execute(sc, [e4, cs4, sm2] {
            callable_body(e4, cs4);
            g_done++;
        });
        sm2->in_submit = false;
    }
}

int main(int argc, char** argv)
{
    args_t a(argc, argv);
    report.property = "C10";
    // layout: comma separated "policy_number:size" for the extra pools; the default pool gets --default workers
    std::string layout = a.str("layout", "3:3,1:2");
    unsigned def_size = (unsigned) a.u64("default", 2);
    std::string def_sched = a.str("scheduler", "local-priority-fifo");
    std::uint64_t pipelines = a.u64("pipelines", 1500);
    unsigned drivers = (unsigned) a.u64("drivers", 4);
    std::vector<std::pair<int, unsigned>> extra;
    {
        std::stringstream ss(layout);
        std::string tok;
        while (std::getline(ss, tok, ','))
            if (!tok.empty()) extra.emplace_back(std::atoi(tok.c_str()), (unsigned) std::atoi(tok.substr(tok.find(':') + 1).c_str()));
    }
    unsigned total = def_size;
    for (auto& x : extra) total += x.second;
    runtime_cfg cfg;
    cfg.scheduler = def_sched;
    cfg.threads = total;
    cfg.bind_none = false;    // pools own distinct PUs
    cfg.rp = [extra, def_size](pika::resource::partitioner& rp, pika::program_options::variables_map const&) {
        std::vector<pika::resource::pu const*> pus;
        for (auto const& s : rp.sockets())
            for (auto const& c : s.cores())
                for (auto const& pu : c.pus()) pus.push_back(&pu);
        std::size_t next = def_size;    // the first def_size PUs stay with the default pool
        int k = 0;
        for (auto& x : extra)
        {
            std::string name = "p" + std::to_string(k++);
            rp.create_thread_pool(name, (pika::resource::scheduling_policy) x.first);
            for (unsigned i = 0; i < x.second && next < pus.size(); ++i) rp.add_resource(*pus[next++], name);
        }
    };
    install_hooks();
    if (a.str("perturb", "light") == "light")
    {
        g_perturb.set_all(0.003, 30);
        // widen the window between "registered as a waiter" and "switched out"
        g_perturb.set(pv::yield_before_switch, 0.15, 60);
        g_perturb.set(pv::sem_wait, 0.15, 40);
    }
    report.cases = 1;
    {
        runtime rt(cfg);
        {
            auto& dp = pika::resource::get_thread_pool("default");
            g_pools.push_back({"default", -1, (unsigned) dp.get_os_thread_count(), &dp, dp.get_pool_index()});
            for (int i = 0; i < 8; ++i)
                if (def_sched == policy_names[i]) g_pools[0].policy = i;
            int k = 0;
            for (auto& x : extra)
            {
                std::string name = "p" + std::to_string(k++);
                auto& p = pika::resource::get_thread_pool(name);
                g_pools.push_back({name, x.first, (unsigned) p.get_os_thread_count(), &p, p.get_pool_index()});
                if (p.get_os_thread_count() != x.second) vio("layout", sf("pool %s has %zu workers, %u were assigned", name.c_str(), p.get_os_thread_count(), x.second));
            }
        }
        // drivers: the main OS thread, tasks on random pools
        std::vector<std::thread> os;
        std::thread os_waker(os_waker_loop);
        std::atomic<int> drv_done{0};
        std::uint64_t per = pipelines / (drivers + 1) + 1;
        for (unsigned d = 0; d < drivers; ++d)
        {
            int pi = (int) (d % g_pools.size());
            ex::execute(ex::thread_pool_scheduler{g_pools[pi].pool}, [d, per, &drv_done] {
                rng r(g_seed * 131 + d);
                for (std::uint64_t i = 0; i < per; ++i) run_pipeline(r.next(), true);
                drv_done++;
            });
        }
        {
            rng r(g_seed * 17 + 5);
            for (std::uint64_t i = 0; i < per; ++i) run_pipeline(r.next(), false);    // submitter outside the runtime
        }
        auto wr = wait_quiescent([&] { return drv_done.load() == (int) drivers && g_done.load() >= g_pipelines.load(); },
            [&] { return g_done.load() + g_phases.load(); }, 40.0);
        if (wr != wait_result::done)
        {
            vio(std::string("hang") + (wr == wait_result::deadlock ? ":deadlock" : ":stalled"),
                sf("%lu of %lu pipelines completed; %s", (unsigned long) g_done.load(), (unsigned long) g_pipelines.load(), pool_state().c_str()));
            report.add("pipelines", g_done.load());
            bail(0);
        }
        {
            std::lock_guard<std::mutex> l(g_wq_m);
            g_wq_stop = true;
        }
        g_wq_cv.notify_all();
        os_waker.join();
        pika::wait();
        std::string lay;
        for (auto& p : g_pools) lay += sf("%s:%d:%u ", p.name.c_str(), p.policy, p.size);
        report.add("pipelines", g_done.load());
        report.add("callables", g_callables.load());
        report.add("phases_checked", g_phases.load());
        report.add("bulk_calls", g_bulk_calls.load());
        report.bit("static_hint_phase", g_hinted_phases.load());
        report.bit("suspension_inside_callable", g_suspensions.load());
        report.add("fast_os_wakeups", g_fast_wakeups.load());
        report.bit("wakeup_found_target_active", totals().hits[pv::sts_active_helper]);
        report.bit("std_thread_hop", g_std_thread.load());
        report.bit("bulk_hop", g_bulk_calls.load());
        report.bit("execute", g_executes.load());
        report.bit("multi_pool", g_pools.size() > 1 ? 1 : 0);
        std::string sig = lay + "|" + def_sched + "|";
        for (auto& kv : report.bits) sig += kv.second ? "1" : "0";
        report.signature(sig);
        report.sample(sf("{\"layout\":\"%s\",\"pipelines\":%lu,\"callables\":%lu,\"phases\":%lu,\"static_hint_phases\":%lu,\"suspensions\":%lu}", lay.c_str(),
            (unsigned long) g_done.load(), (unsigned long) g_callables.load(), (unsigned long) g_phases.load(), (unsigned long) g_hinted_phases.load(),
            (unsigned long) g_suspensions.load()));
    }
    report.emit();
    return 0;
}
