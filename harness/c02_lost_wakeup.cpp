// C02: no lost wake-up.  One-shot waiter/waker pairs over every blocking facility built on the
// suspend/resume path.  A waker depends only on the waiter's "registered" flag (set before the
// waiter blocks), issues the wake-up and terminates, so that a lost wake-up leaves the runtime
// quiescent with an incomplete ledger - which the state-based watchdog decides without timing.
#include "common/verif.hpp"

#include <pika/concurrency/spinlock.hpp>
#include <pika/execution_base/this_thread.hpp>
#include <pika/latch.hpp>
#include <pika/mutex.hpp>
#include <pika/semaphore.hpp>
#include <pika/synchronization/detail/condition_variable.hpp>

#include <condition_variable>
#include <deque>

using namespace verif;
using spin_t = pika::concurrency::detail::spinlock;

enum facility
{
    f_agent,     // raw agent suspend/resume under a spinlock
    f_agent2,    // same, two independent wakers (second finds the target active / re-suspended)
    f_cv,        // detail::condition_variable under a spinlock
    f_sem,       // counting_semaphore acquire / release
    f_latch,     // latch wait / count_down
    f_mutex,     // pika::mutex contention
    f_join,      // thread::join vs. termination
    f_count
};
static char const* const fac_name[] = {"agent", "agent2", "cv", "sem", "latch", "mutex", "join"};

struct pair_t
{
    int fac = 0;
    bool os_waker = false;
    std::atomic<bool> registered{false};
    std::atomic<int> issued{0};
    std::atomic<bool> woken{false};
    // facility state
    spin_t m;
    int tokens = 0;
    bool flag = false;
    pika::execution::detail::agent_ref agent;
    pika::detail::condition_variable cv;
    pika::counting_semaphore<> sem{0};
    pika::latch latch{1};
    pika::mutex mtx;
    std::atomic<bool> holder_has_lock{false};
    // per-pair generator used by the waiter task only: a task must not touch a thread_local across a yield
    // (the compiler may cache the TLS address of the worker it started on)
    rng rw{1};
    int fac_ = 0;
    // pika asserts (Debug flavour) that a latch is at zero when it is destroyed: pairs of the other facilities never touch
    // theirs, and an abandoned latch pair (failure path) is never destroyed anyway
    ~pair_t()
    {
        if (!latch.try_wait()) latch.count_down(1);
    }
};

static std::atomic<std::uint64_t> g_woken{0};
static std::atomic<std::uint64_t> g_fac_done[f_count];

// ---- OS-thread wakers: a small pool of plain threads fed through a std::mutex/condvar queue
static std::mutex g_osq_m;
static std::condition_variable g_osq_cv;
static std::deque<std::pair<pair_t*, int>> g_osq;
static bool g_osq_stop = false;
static std::atomic<std::uint64_t> g_os_wakes{0};
static void waker(pair_t* p, int which);
static void os_waker_loop()
{
    for (;;)
    {
        std::pair<pair_t*, int> job;
        {
            std::unique_lock<std::mutex> l(g_osq_m);
            g_osq_cv.wait(l, [] { return g_osq_stop || !g_osq.empty(); });
            if (g_osq.empty()) return;
            job = g_osq.front();
            g_osq.pop_front();
        }
        waker(job.first, job.second);
        g_os_wakes++;
        external_end();
    }
}

// The waiter itself launches its waker(s) *after* it has registered, so no task ever spins waiting for
// another task to start (pika only converts staged tasks into threads while the pending queue is short;
// yield-spinning on a not-yet-started task can therefore livelock by design and is not a lost wake-up).
static void launch_wakers(pair_t* p)
{
    int nw = p->fac == f_agent2 ? 2 : 1;
    for (int w = 0; w < nw; ++w)
    {
        bool os = p->os_waker && (w == 0 || p->rw.chance(1, 2));
        if (os)
        {
            external_begin();
            {
                std::lock_guard<std::mutex> l(g_osq_m);
                g_osq.emplace_back(p, w);
            }
            g_osq_cv.notify_one();
        }
        else
            ex::execute(ex::thread_pool_scheduler{}, [p, w] { waker(p, w); });
    }
}

static void finish_pair(pair_t* p)
{
    p->woken = true;
    g_fac_done[p->fac]++;
    g_woken++;
}

static void waiter(pair_t* p)
{
    switch (p->fac)
    {
    case f_agent:
    case f_agent2:
    {
        int need = p->fac == f_agent2 ? 2 : 1;
        std::unique_lock l(p->m);
        p->agent = pika::execution::this_thread::detail::agent();
        p->registered = true;
        l.unlock();
        launch_wakers(p);
        l.lock();
        while (p->tokens < need)
        {
            l.unlock();
            p->agent.suspend();
            l.lock();
        }
        l.unlock();
        // stay active for a while: a delayed retry helper of the *other* waker then finds the target active
        // again with a different tag (the "tag changed" abort branch of set_active_state)
        if (need == 2) spin_us((unsigned) p->rw.below(300));
        break;
    }
    case f_cv:
    {
        p->registered = true;
        launch_wakers(p);
        std::unique_lock l(p->m);
        while (!p->flag) p->cv.wait(l);
        break;
    }
    case f_sem:
        p->registered = true;
        launch_wakers(p);
        p->sem.acquire();
        break;
    case f_latch:
        p->registered = true;
        launch_wakers(p);
        p->latch.wait();
        break;
    case f_mutex:
    {
        // this task is the holder; the contender blocks in lock() and is woken by our unlock()
        p->mtx.lock();
        ex::execute(ex::thread_pool_scheduler{}, [p] {
            p->registered = true;
            p->mtx.lock();
            p->mtx.unlock();
            finish_pair(p);    // the contender is the task whose wake-up matters
        });
        int k = (int) p->rw.below(40);
        for (int i = 0; i < k && !p->registered.load(); ++i) pika::this_thread::yield();    // bounded: never wait for a start
        k = (int) p->rw.below(4);
        for (int i = 0; i < k; ++i) pika::this_thread::yield();    // owner migrates while holding the lock
        p->mtx.unlock();
        p->issued.fetch_add(1);
        return;
    }
    case f_join:
    {
        pika::thread t([p] {
            int k = (int) (p->rw.s % 3);    // read-only use: the parent owns rw
            for (int i = 0; i < k; ++i) pika::this_thread::yield();
            p->issued.fetch_add(1);    // termination is the wake-up
        });
        p->registered = true;
        if (!t.joinable())
        {
            // shared-priority + round robin: not joinable (C13's finding); nothing to wait for here
            report.bit("join_unjoinable");
            t.detach();
            while (!p->issued.load()) pika::this_thread::yield();
            break;
        }
        t.join();
        if (!p->issued.load()) report.violation("C02:join-returned-early", "join() returned before the thread function ended");
        break;
    }
    }
    finish_pair(p);
}

static void waker(pair_t* p, int which)
{
    switch (p->fac)
    {
    case f_agent:
    case f_agent2:
    {
        std::unique_lock l(p->m);
        p->tokens++;
        p->agent.resume();
        break;
    }
    case f_cv:
    {
        std::unique_lock l(p->m);
        p->flag = true;
        if (which & 1) p->cv.notify_all(std::move(l));
        else p->cv.notify_one(std::move(l));
        break;
    }
    case f_sem: p->sem.release(); break;
    case f_latch: p->latch.count_down(1); break;
    default: break;
    }
    p->issued.fetch_add(1);
}

int main(int argc, char** argv)
{
    args_t a(argc, argv);
    report.property = "C02";
    runtime_cfg cfg;
    cfg.scheduler = a.str("scheduler", "local-priority-fifo");
    cfg.threads = (unsigned) a.u64("threads", 4);
    cfg.bind_none = !a.has("bind");
    std::uint64_t npairs = a.u64("pairs", 4000);
    std::uint64_t batch = a.u64("batch", 256);
    std::string profile = a.str("perturb", "window");
    unsigned os_share = (unsigned) a.u64("os", 25);    // percent of wakers that are plain OS threads
    std::string only = a.str("facility", "all");
    install_hooks();
    g_sr_enabled = true;
    if (profile == "window")
    {
        g_perturb.set(pv::cv_wait_enqueued, 0.5, 150);
        g_perturb.set(pv::yield_before_switch, 0.25, 150);
    }
    else if (profile == "waker")
    {
        g_perturb.set(pv::sts_before_cas, 0.3, 120);
        g_perturb.set(pv::sts_before_schedule, 0.3, 120);
        g_perturb.set(pv::sas_entry, 0.5, 120);
        g_perturb.set(pv::cv_notify_one, 0.2, 60);
        g_perturb.set(pv::cv_notify_all, 0.2, 60);
    }
    else if (profile == "both")
    {
        g_perturb.set(pv::cv_wait_enqueued, 0.3, 100);
        g_perturb.set(pv::yield_before_switch, 0.15, 100);
        g_perturb.set(pv::sts_before_cas, 0.2, 80);
        g_perturb.set(pv::sas_entry, 0.3, 80);
        g_perturb.set(pv::sched_after_run, 0.05, 80);
        g_perturb.set(pv::sched_after_store, 0.05, 80);
    }
    else if (profile == "abort")
    {
        g_perturb.set(pv::yield_before_switch, 0.5, 150);
        g_perturb.set(pv::sas_entry, 0.9, 400);
    }
    else if (profile == "light")
        g_perturb.set_all(0.003, 40);
    report.cases = 1;
    {
        runtime rt(cfg);
        ex::thread_pool_scheduler sched{};
        rng r(g_seed);
        std::uint64_t started = 0;
        std::vector<std::unique_ptr<pair_t>> all;
        all.reserve(npairs);
        std::vector<std::thread> oswakers;
        for (int i = 0; i < 3; ++i) oswakers.emplace_back(os_waker_loop);
        bool wedged = false;
        std::uint64_t n_os = 0;
        while (started < npairs && !wedged)
        {
            std::uint64_t n = std::min(batch, npairs - started);
            std::size_t base = all.size();
            for (std::uint64_t i = 0; i < n; ++i)
            {
                auto p = std::make_unique<pair_t>();
                p->fac = only == "all" ? (int) r.below(f_count) : -1;
                if (p->fac < 0)
                    for (int f = 0; f < f_count; ++f)
                        if (only == fac_name[f]) p->fac = f;
                if (p->fac < 0) p->fac = 0;
                p->rw = rng(g_seed * 131 + all.size());
                p->os_waker = p->fac != f_mutex && p->fac != f_join && r.below(100) < os_share;
                all.push_back(std::move(p));
            }
            for (std::size_t i = base; i < all.size(); ++i)
            {
                pair_t* p = all[i].get();
                auto s = r.chance(1, 3) ? ex::with_priority(sched, r.chance(1, 2) ? pika::execution::thread_priority::high : pika::execution::thread_priority::low) : sched;
                ex::execute(s, [p] { waiter(p); });
            }
            started += n;
            std::uint64_t target = started;
            auto wr = wait_quiescent([&] { return g_woken.load() >= target; }, [&] { return g_woken.load(); });
            if (wr != wait_result::done)
            {
                wedged = true;
                std::uint64_t lost = 0, unissued = 0;
                std::string first;
                for (auto& p : all)
                {
                    if (p->woken) continue;
                    if (std::getenv("VERIF_DEBUG"))
                        std::fprintf(stderr, "unfinished: fac=%s os=%d registered=%d issued=%d tokens=%d flag=%d\n", fac_name[p->fac],
                            (int) p->os_waker, (int) p->registered.load(), p->issued.load(), p->tokens, (int) p->flag);
                    int need = p->fac == f_agent2 ? 2 : 1;
                    if (p->registered && p->issued.load() >= need)
                    {
                        ++lost;
                        std::string key = std::string("C02:lost-wakeup:") + fac_name[p->fac] + (p->os_waker ? ":os-waker" : ":task-waker");
                        report.violation(wr == wait_result::deadlock ? key : key + ":stalled",
                            sf("waiter registered, %d wake-up(s) issued and returned, waiter never resumed; runtime %s; cfg=%s perturb=%s %s",
                                p->issued.load(), wr == wait_result::deadlock ? "quiescent" : "busy without progress",
                                cfg.describe().c_str(), profile.c_str(), pool_state().c_str()));
                    }
                    else
                        ++unissued;
                }
                if (!lost)
                {
                    if (wr == wait_result::deadlock)
                        report.violation("C02:deadlock:no-issued-wakeup-outstanding",
                            sf("quiescent with %lu unfinished pairs, none with an issued wake-up (waker or waiter task lost?) cfg=%s %s",
                                (unsigned long) unissued, cfg.describe().c_str(), pool_state().c_str()));
                    else
                        report.inconc("stalled without progress, cfg=" + cfg.describe());
                }
                report.add("lost", lost);
            }
        }
        auto t = totals();
        report.add("pairs", g_woken.load());
        for (int f = 0; f < f_count; ++f) report.add(std::string("woken_") + fac_name[f], g_fac_done[f].load());
        n_os = g_os_wakes.load();
        report.add("os_wakers", n_os);
        report.add("single_runner_checked", g_sr_checked.load());
        report.bit("resume_found_target_active", t.hits[pv::sts_active_helper]);
        report.bit("helper_retry", t.hits[pv::sas_entry]);
        report.bit("helper_abort_tag_changed", t.hits[pv::sas_abort]);
        report.bit("os_waker", n_os);
        report.bit("steal", t.steals);
        report.bit("cv_wait", t.hits[pv::cv_wait_enqueued]);
        report.bit("delays", t.delays);
        if (g_sr_violations.load())
            report.violation("C02:single-runner", sf("%lu overlapping executions of one thread object", (unsigned long) g_sr_violations.load()));
        std::string sig = cfg.describe() + "|" + profile + "|" + only + "|";
        for (auto& kv : report.bits) sig += kv.second ? "1" : "0";
        report.signature(sig);
        report.sample(sf("{\"cfg\":\"%s\",\"perturb\":\"%s\",\"facility\":\"%s\",\"pairs\":%lu,\"os_wakers\":%lu,\"target_active\":%lu,\"helper_abort\":%lu}",
            cfg.describe().c_str(), profile.c_str(), only.c_str(), (unsigned long) g_woken.load(), (unsigned long) n_os,
            (unsigned long) t.hits[pv::sts_active_helper], (unsigned long) t.hits[pv::sas_abort]));
        if (wedged) bail(0);
        {
            std::lock_guard<std::mutex> l(g_osq_m);
            g_osq_stop = true;
        }
        g_osq_cv.notify_all();
        for (auto& th : oswakers) th.join();
        pika::wait();
    }
    report.emit();
    return 0;
}
