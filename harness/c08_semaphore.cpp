// C08: semaphores conserve permits and release blocked acquirers.
//   conserve : random acquire/try_acquire/try_acquire_for/release(n) traffic from tasks and OS threads; shadow counter
//              (incremented before release, decremented after acquire) must never go negative; final drain must match.
//   blocked  : rounds of W acquirers blocked on an empty semaphore, the last registrant launches release(n) calls that sum
//              to W: every acquirer must proceed (quiescence watchdog), nothing may be left over.
//   timed    : exclusive acquirer in try_acquire_for/until with a permit released before the deadline must get true;
//              without a release it must get false and leave the count untouched.
//   sliding  : sliding_semaphore wait(upper)/signal(lower): no wait returns while upper - lower > max_difference,
//              blocked waiters proceed once the bound moved.
#include "common/verif.hpp"

#include <pika/semaphore.hpp>
#include <pika/synchronization/sliding_semaphore.hpp>

#include <condition_variable>
#include <deque>
#include <mutex>

using namespace verif;

static std::string g_mode;
static void vio(std::string const& what, std::string const& detail) { report.violation("C08:" + what, detail); }
static std::atomic<std::uint64_t> g_progress{0};

// ---- OS-thread job pool
static std::mutex g_osq_m;
static std::condition_variable g_osq_cv;
static std::deque<std::function<void()>> g_osq;
static bool g_osq_stop = false;
static void os_loop()
{
    for (;;)
    {
        std::function<void()> job;
        {
            std::unique_lock<std::mutex> l(g_osq_m);
            g_osq_cv.wait(l, [] { return g_osq_stop || !g_osq.empty(); });
            if (g_osq.empty()) return;
            job = std::move(g_osq.front());
            g_osq.pop_front();
        }
        job();
        external_end();
    }
}
static void os_submit(std::function<void()> f)
{
    external_begin();
    {
        std::lock_guard<std::mutex> l(g_osq_m);
        g_osq.push_back(std::move(f));
    }
    g_osq_cv.notify_one();
}
template <typename F>
static void launch(bool os, F&& f)
{
    if (os) os_submit(std::forward<F>(f));
    else ex::execute(ex::thread_pool_scheduler{}, std::forward<F>(f));
}

// =============================================================================== conserve
template <typename Sem>
struct conserve_t
{
    Sem sem;
    std::atomic<std::int64_t> shadow;    // >= real count at all times
    std::atomic<std::int64_t> max_inside{0}, inside{0};
    std::atomic<std::uint64_t> acq{0}, try_ok{0}, try_fail{0}, timed_ok{0}, timed_fail{0}, rel{0};
    std::int64_t initial;
    explicit conserve_t(std::int64_t init)
      : sem(init)
      , shadow(init)
      , initial(init)
    {
    }
};

template <typename Sem>
static void conserve_actor(conserve_t<Sem>* c, std::uint64_t seed, int iters, bool is_task, bool binary)
{
    rng r(seed);
    for (int i = 0; i < iters; ++i)
    {
        // plain OS threads do not use the timed forms here: a timed wait on an OS thread deadlocks with the releaser in
        // this pika version (default_agent::sleep_until, known finding D14, reported under C07)
        unsigned op = (unsigned) r.below(is_task ? 10 : 7);
        bool got = false;
        if (op < 4)
        {
            c->sem.acquire();
            got = true;
            c->acq++;
        }
        else if (op < 7)
        {
            got = c->sem.try_acquire();
            (got ? c->try_ok : c->try_fail)++;
        }
        else
        {
            auto d = std::chrono::microseconds(100 + r.below(1500));
            got = (op & 1) ? c->sem.try_acquire_for(d) : c->sem.try_acquire_until(std::chrono::steady_clock::now() + d);
            (got ? c->timed_ok : c->timed_fail)++;
        }
        if (got)
        {
            std::int64_t s = c->shadow.fetch_sub(1) - 1;
            if (s < 0) vio("conservation:over-acquire:" + g_mode, sf("more successful acquisitions than permits: shadow count %ld", (long) s));
            std::int64_t in = c->inside.fetch_add(1) + 1;
            if (in > c->initial) vio("conservation:over-acquire:" + g_mode, sf("%ld holders with %ld permits", (long) in, (long) c->initial));
            if (is_task && r.chance(1, 3)) pika::this_thread::yield();
            c->inside.fetch_sub(1);
            c->shadow.fetch_add(1);    // before the release becomes visible
            c->sem.release();
            c->rel++;
        }
        g_progress++;
        if (is_task && r.chance(1, 4)) pika::this_thread::yield();
    }
    (void) binary;
}

template <typename Sem>
static bool run_conserve(runtime_cfg const& cfg, std::int64_t initial, unsigned tasks, unsigned osthreads, int iters, bool binary)
{
    auto c = std::make_unique<conserve_t<Sem>>(initial);
    std::uint64_t expect = g_progress.load() + std::uint64_t(tasks + osthreads) * iters;
    std::vector<std::thread> os;
    for (unsigned t = 0; t < osthreads; ++t)
    {
        external_begin();
        os.emplace_back([&, t] {
            conserve_actor(c.get(), g_seed * 91 + t, iters, false, binary);
            external_end();
        });
    }
    for (unsigned t = 0; t < tasks; ++t)
        ex::execute(ex::thread_pool_scheduler{}, [&, t] { conserve_actor(c.get(), g_seed * 53 + t + 1000, iters, true, binary); });
    auto wr = wait_quiescent([&] { return g_progress.load() >= expect; }, [&] { return g_progress.load(); }, 40.0);
    if (wr != wait_result::done)
    {
        vio(std::string("blocked-acquirer:") + g_mode + (wr == wait_result::deadlock ? ":deadlock" : ":stalled"),
            sf("actors stuck although every holder releases its permit: shadow=%ld acq=%lu rel=%lu cfg=%s %s", (long) c->shadow.load(),
                (unsigned long) c->acq.load(), (unsigned long) c->rel.load(), cfg.describe().c_str(), pool_state().c_str()));
        for (auto& t : os) t.detach();
        c.release();
        return false;
    }
    for (auto& t : os) t.join();
    // drain: exactly `initial` permits must be left
    std::int64_t left = 0;
    while (left <= initial + 4 && c->sem.try_acquire()) ++left;
    if (left != initial) vio("conservation:final-count:" + g_mode, sf("%ld permits left after a balanced history, expected %ld", (long) left, (long) initial));
    report.add("acquire", c->acq.load());
    report.add("try_acquire_true", c->try_ok.load());
    report.add("try_acquire_false", c->try_fail.load());
    report.add("timed_true", c->timed_ok.load());
    report.add("timed_false", c->timed_fail.load());
    report.bit("try_acquire_contended", c->try_fail.load());
    return true;
}

// =============================================================================== blocked
struct blocked_round
{
    pika::counting_semaphore<> sem{0};
    int W = 1;
    std::vector<int> chunks;
    bool os_releaser = false;
    std::atomic<int> registered{0}, proceeded{0};
    std::atomic<bool> released{false};
};
static std::atomic<std::uint64_t> g_rounds{0};

static bool run_blocked(runtime_cfg const& cfg, std::uint64_t rounds, std::uint64_t batch, unsigned os_share)
{
    rng r(g_seed);
    std::vector<std::unique_ptr<blocked_round>> all;
    std::uint64_t started = 0, expect = g_progress.load();
    while (started < rounds)
    {
        std::uint64_t n = std::min(batch, rounds - started);
        std::size_t base = all.size();
        for (std::uint64_t i = 0; i < n; ++i)
        {
            auto rd = std::make_unique<blocked_round>();
            rd->W = 1 + (int) r.below(r.chance(1, 3) ? 48 : 6);
            int left = rd->W;
            while (left > 0)
            {
                int c = r.chance(1, 3) ? left : 1 + (int) r.below(left);
                rd->chunks.push_back(c);
                left -= c;
            }
            rd->os_releaser = r.below(100) < os_share;
            expect += rd->W;
            all.push_back(std::move(rd));
        }
        for (std::size_t i = base; i < all.size(); ++i)
        {
            auto* rd = all[i].get();
            for (int w = 0; w < rd->W; ++w)
                ex::execute(ex::thread_pool_scheduler{}, [rd] {
                    if (rd->registered.fetch_add(1) + 1 == rd->W)
                        launch(rd->os_releaser, [rd] {
                            for (int c : rd->chunks) rd->sem.release(c);
                            rd->released = true;
                        });
                    rd->sem.acquire();
                    if (rd->proceeded.fetch_add(1) + 1 == rd->W) g_rounds++;
                    g_progress++;
                });
        }
        started += n;
        auto wr = wait_quiescent([&] { return g_progress.load() >= expect; }, [&] { return g_progress.load(); }, 40.0);
        if (wr != wait_result::done)
        {
            for (auto& rd : all)
                if (rd->proceeded.load() != rd->W)
                    vio(std::string(rd->released ? "blocked-acquirer:release-n" : "blocked-acquirer:release-not-returned") +
                            (wr == wait_result::deadlock ? ":deadlock" : ":stalled"),
                        sf("%d acquirers blocked on an empty semaphore, release(%s) calls summing to %d %s, only %d proceeded; cfg=%s %s", rd->W,
                            [&] {
                                std::string s;
                                for (int c : rd->chunks) s += std::to_string(c) + ",";
                                return s;
                            }()
                                .c_str(),
                            rd->W, rd->released ? "returned" : "did not return", rd->proceeded.load(), cfg.describe().c_str(), pool_state().c_str()));
            return false;
        }
        for (std::size_t i = base; i < all.size(); ++i)
            if (all[i]->sem.try_acquire()) vio("conservation:leftover:blocked", "a permit was left over after W acquirers consumed W released permits");
    }
    report.add("blocked_rounds", g_rounds.load());
    return true;
}

// =============================================================================== timed
static bool run_timed(runtime_cfg const& cfg, int reps, unsigned os_share)
{
    rng r(g_seed);
    std::atomic<int> done{0};
    int launched = 0;
    struct cell
    {
        pika::counting_semaphore<> sem{0};
        pika::binary_semaphore<> bsem{0};
        std::atomic<std::uint64_t> t_released{0};
    };
    std::vector<std::unique_ptr<cell>> cells;
    for (int i = 0; i < reps; ++i)
    {
        cells.push_back(std::make_unique<cell>());
        cell* c = cells.back().get();
        int variant = (int) r.below(4);
        bool os_rel = r.below(100) < os_share;
        auto span = std::chrono::milliseconds(60 + r.below(120));
        ++launched;
        ex::execute(ex::thread_pool_scheduler{}, [c, variant, os_rel, span, &done] {
            std::uint64_t deadline = now_ns() + std::uint64_t(span.count()) * 1000000ull;
            if (variant < 3)
            {
                // exclusive acquirer: nobody else can take the permit
                launch(os_rel, [c, variant] {
                    if (variant == 2) c->bsem.release();
                    else c->sem.release();
                    c->t_released = now_ns();
                });
                bool got = variant == 0 ? c->sem.try_acquire_for(span) :
                    (variant == 1 ? c->sem.try_acquire_until(std::chrono::steady_clock::now() + span) : c->bsem.try_acquire_for(span));
                std::uint64_t tr = c->t_released.load();
                bool released_in_time = tr != 0 && tr + 20000000ull < deadline;
                if (!got && released_in_time)
                {
                    vio("timed:false-after-release", "try_acquire_for/until returned false although a permit was released >20 ms before the deadline");
                    // false must leave the count untouched: the permit must still be there
                    bool still = variant == 2 ? c->bsem.try_acquire() : c->sem.try_acquire();
                    if (!still) vio("timed:false-consumed", "timed acquire returned false but the permit is gone");
                }
                if (got)
                {
                    bool extra = variant == 2 ? c->bsem.try_acquire() : c->sem.try_acquire();
                    if (extra) vio("timed:true-not-consumed", "timed acquire returned true without consuming the permit");
                }
                report.add(got ? "timed_exclusive_true" : "timed_exclusive_false");
            }
            else
            {
                bool got = c->sem.try_acquire_for(std::chrono::milliseconds(3));
                if (got) vio("timed:true-without-permit", "try_acquire_for on an empty semaphore returned true");
                c->sem.release();
                if (!c->sem.try_acquire()) vio("timed:false-consumed", "count disturbed by a timed-out acquire");
                report.add("timed_expired");
            }
            done++;
            g_progress++;
        });
    }
    auto wr = wait_quiescent([&] { return done.load() >= launched; }, [&] { return (std::uint64_t) done.load(); }, 40.0);
    if (wr != wait_result::done)
    {
        vio(std::string("timed:hang") + (wr == wait_result::deadlock ? ":deadlock" : ":stalled"), "timed acquire did not return: " + cfg.describe() + " " + pool_state());
        for (auto& c : cells) c.release();
        return false;
    }
    report.bit("timed_blocked", totals().hits[pv::sem_wait_timed]);
    return true;
}

// =============================================================================== sliding
static bool run_sliding(runtime_cfg const& cfg, int reps, unsigned os_share)
{
    rng r(g_seed);
    for (int rep = 0; rep < reps; ++rep)
    {
        std::int64_t maxd = 1 + (std::int64_t) r.below(8);
        std::int64_t N = 20 + (std::int64_t) r.below(200);
        // per-round state is shared-owned: a signal handed to an OS thread may still be on its way when the round's last
        // waiter has passed (later signals overtake it); it must then act on ITS round's semaphore and shadow, not on the
        // next round's objects at the same stack address
        struct round_state
        {
            pika::sliding_semaphore sem;
            std::atomic<std::int64_t> lower_shadow{0};    // >= real lower limit at all times (raised before signal)
            std::atomic<std::int64_t> passed{0};
            std::atomic<int> signals_in_flight{0};    // signal calls handed to an OS thread that have not run yet
            round_state(std::int64_t maxd)
              : sem(maxd, 0)
            {
            }
        };
        auto st = std::make_shared<round_state>(maxd);
        auto* sem = &st->sem;
        auto& passed = st->passed;
        auto& lower_shadow = st->lower_shadow;
        std::uint64_t expect = g_progress.load() + N;
        bool os_sig = r.below(100) < os_share;
        // waiters: one task per index u waits for its turn, then (as the work completes) signals u
        for (std::int64_t u = 1; u <= N; ++u)
        {
            ex::execute(ex::thread_pool_scheduler{}, [st, u, os_sig, maxd] {
                st->sem.wait(u);
                std::int64_t lo = st->lower_shadow.load();
                if (u - lo > maxd)
                    vio("sliding:window", sf("wait(%ld) returned while the signalled lower bound is at most %ld and max_difference is %ld", (long) u, (long) lo, (long) maxd));
                st->passed++;
                if ((u & 3) == 0) pika::this_thread::yield();
                auto sig = [st, u] {
                    std::int64_t cur = st->lower_shadow.load();
                    while (cur < u && !st->lower_shadow.compare_exchange_weak(cur, u)) {}
                    st->sem.signal(u);
                    st->signals_in_flight--;
                };
                st->signals_in_flight++;
                if (os_sig && (u % 5) == 0) os_submit(sig);
                else sig();
                g_progress++;
            });
        }
        auto wr = wait_quiescent([&] { return g_progress.load() >= expect; }, [&] { return g_progress.load(); }, 40.0);
        if (wr != wait_result::done)
        {
            vio(std::string("sliding:blocked-waiter") + (wr == wait_result::deadlock ? ":deadlock" : ":stalled"),
                sf("%ld of %ld waiters passed with max_difference %ld and signalled lower bound %ld; cfg=%s %s", (long) passed.load(), (long) N, (long) maxd,
                    (long) lower_shadow.load(), cfg.describe().c_str(), pool_state().c_str()));
            new std::shared_ptr<round_state>(st);    // blocked waiters still reference it: never freed
            return false;
        }
        // the last signals may still be on their way on an OS thread (later signals overtake them): the window checks below
        // are about the state after ALL N signals
        while (st->signals_in_flight.load() != 0) std::this_thread::sleep_for(std::chrono::microseconds(100));
        if (!sem->try_wait(N + maxd)) vio("sliding:try_wait", "try_wait inside the window returned false");
        if (sem->try_wait(N + maxd + 1)) vio("sliding:try_wait", "try_wait beyond the window returned true");
        report.add("sliding_waits", N);
    }
    return true;
}

int main(int argc, char** argv)
{
    args_t a(argc, argv);
    report.property = "C08";
    runtime_cfg cfg;
    cfg.scheduler = a.str("scheduler", "local-priority-fifo");
    cfg.threads = (unsigned) a.u64("threads", 4);
    cfg.bind_none = !a.has("bind");
    g_mode = a.str("mode", "conserve");
    std::string profile = a.str("perturb", "sem");
    unsigned os_share = (unsigned) a.u64("os", 25);
    install_hooks();
    if (profile == "sem")
    {
        g_perturb.set(pv::sem_signal_mid, 0.3, 60);
        g_perturb.set(pv::sem_wait, 0.1, 40);
        g_perturb.set(pv::sem_wait_timed, 0.1, 40);
        g_perturb.set(pv::cv_notify_one, 0.2, 60);
        g_perturb.set(pv::cv_wait_enqueued, 0.2, 80);
        g_perturb.set(pv::yield_before_switch, 0.05, 60);
    }
    else if (profile == "light")
        g_perturb.set_all(0.004, 40);
    report.cases = 1;
    bool ok = true;
    {
        runtime rt(cfg);
        std::vector<std::thread> ospool;
        for (int i = 0; i < 3; ++i) ospool.emplace_back(os_loop);
        if (g_mode == "conserve")
            ok = run_conserve<pika::counting_semaphore<>>(cfg, (std::int64_t) a.u64("initial", 3), (unsigned) a.u64("tasks", 16), (unsigned) a.u64("osthreads", 2),
                (int) a.u64("iters", 300), false);
        else if (g_mode == "binary")
            ok = run_conserve<pika::binary_semaphore<>>(cfg, 1, (unsigned) a.u64("tasks", 12), (unsigned) a.u64("osthreads", 2), (int) a.u64("iters", 300), true);
        else if (g_mode == "blocked") ok = run_blocked(cfg, a.u64("rounds", 300), a.u64("batch", 16), os_share);
        else if (g_mode == "timed") ok = run_timed(cfg, (int) a.u64("reps", 24), os_share);
        else if (g_mode == "sliding") ok = run_sliding(cfg, (int) a.u64("reps", 20), os_share);
        auto t = totals();
        report.bit("blocked_acquirer", t.hits[pv::sem_wait]);
        report.bit("timed_blocked_acquirer", t.hits[pv::sem_wait_timed]);
        report.bit("signal_with_waiters", t.hits[pv::cv_notify_one]);
        report.bit("resume_found_target_active", t.hits[pv::sts_active_helper]);
        std::string sig = cfg.describe() + "|" + g_mode + "|" + profile + "|";
        for (auto& kv : report.bits) sig += kv.second ? "1" : "0";
        report.signature(sig);
        report.sample(sf("{\"cfg\":\"%s\",\"mode\":\"%s\",\"perturb\":\"%s\",\"ops\":%lu,\"blocked\":%lu}", cfg.describe().c_str(), g_mode.c_str(),
            profile.c_str(), (unsigned long) g_progress.load(), (unsigned long) t.hits[pv::sem_wait]));
        if (!ok) bail(0);
        {
            std::lock_guard<std::mutex> l(g_osq_m);
            g_osq_stop = true;
        }
        g_osq_cv.notify_all();
        for (auto& th : ospool) th.join();
        pika::wait();
    }
    report.emit();
    return 0;
}
