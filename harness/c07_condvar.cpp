// C07: condition variables never lose a notification.
// Rounds of W waiters (pika tasks and plain OS threads) on one condition variable.  The waiter that completes
// the registration (under the user lock) launches the notifier, which must take the user lock first - so the
// notification is issued by "someone who acquired the user lock after the waiter released it", exactly the case
// the property names.  A lost notification leaves the round incomplete at quiescence.
#include "common/verif.hpp"

#include <pika/condition_variable.hpp>
#include <pika/mutex.hpp>
#include <pika/stop_token.hpp>

#include <condition_variable>
#include <deque>
#include <mutex>

using namespace verif;

enum kind_t
{
    k_all,          // notify_all, plain wait in a generation loop
    k_all_pred,     // notify_all, predicate form
    k_one,          // W x notify_one, token protocol
    k_timed_far,    // wait_until / wait_for with a far deadline, notified early: must not report timeout
    k_stop,         // stop_token wait, request_stop from a task / OS thread
    k_stop_timed,   // stop_token wait_for with a far deadline
    k_timed_edge,   // T timed waiters with one common deadline + one untimed waiter behind them, ONE notify_one issued at the
                    // deadline (swept around it): the notification must not vanish (a timed waiter reports no_timeout or the
                    // untimed waiter wakes)
    k_count
};
static char const* const kind_name[] = {"notify_all", "notify_all_pred", "notify_one", "timed_far", "stop", "stop_timed", "timed_edge"};

static std::atomic<std::uint64_t> g_woken{0}, g_rounds_done{0};
static std::atomic<std::uint64_t> g_kind_done[k_count];
static std::string g_combo;
static double g_stall = 40.0;

static void vio(std::string const& what, std::string const& detail) { report.violation("C07:" + what + ":" + g_combo, detail); }

// ---- OS-thread job pool (notifiers / stoppers on plain threads)
static std::mutex g_osq_m;
static std::condition_variable g_osq_cv;
static std::deque<std::function<void()>> g_osq;
static bool g_osq_stop = false;
static void os_loop()
{
    for (;;)
    {
        std::function<void()> job;
        {
            std::unique_lock<std::mutex> l(g_osq_m);
            g_osq_cv.wait(l, [] { return g_osq_stop || !g_osq.empty(); });
            if (g_osq.empty()) return;
            job = std::move(g_osq.front());
            g_osq.pop_front();
        }
        job();
        external_end();
    }
}
static void os_submit(std::function<void()> f)
{
    external_begin();
    {
        std::lock_guard<std::mutex> l(g_osq_m);
        g_osq.push_back(std::move(f));
    }
    g_osq_cv.notify_one();
}

template <typename CV, typename L>
struct round_t
{
    int kind = 0;
    int W = 1;
    bool os_notifier = false;
    bool notify_under_lock = false;
    L m;
    CV cv;
    // protected by m (plain memory: TSan decides the hand-over)
    std::uint64_t gen = 0;
    int tokens = 0;
    int registered = 0;
    int inside = 0;
    bool flag = false;
    std::uint64_t payload = 0;
    // timed_edge (protected by m)
    std::chrono::steady_clock::time_point edge_deadline{};
    int edge_timed_returned = 0, edge_no_timeout = 0;
    bool edge_notify_issued = false, edge_evaluated = false;
    int edge_delta_us = 0;
    pika::stop_source src;
    std::atomic<int> woken{0};
    std::atomic<int> notified{0};
    std::atomic<bool> notify_started{false};
    std::atomic<std::uint64_t> t_notified_ns{0};    // stamp taken after the notification call returned
    rng r{1};
};

static std::atomic<std::uint64_t> g_edge_consumed_by_timed{0}, g_edge_consumed_by_untimed{0}, g_edge_timeouts{0};

// timed_edge, called with the user lock held once the notification has been issued and again when the last timed waiter
// has returned: if a timed waiter took the notification (reported no_timeout) the untimed waiter is released by the
// harness; otherwise the untimed waiter must wake by itself - if it never does the round stays open and the quiescence
// watchdog reports the lost notification
template <typename R>
static void edge_evaluate(R* rd)
{
    if (rd->edge_evaluated || !rd->edge_notify_issued || rd->edge_timed_returned != rd->W - 1) return;
    rd->edge_evaluated = true;
    if (rd->edge_no_timeout > 0)
    {
        g_edge_consumed_by_timed++;
        rd->flag = true;
        rd->cv.notify_all();
    }
    else
        g_edge_consumed_by_untimed++;
}

template <typename R>
static void notifier(R* rd)
{
    rd->notify_started = true;
    switch (rd->kind)
    {
    case k_all:
    case k_all_pred:
    case k_timed_far:
    {
        std::unique_lock<decltype(rd->m)> lk(rd->m);
        ++rd->gen;
        rd->flag = true;
        rd->payload = 0xC0FFEE00 + rd->gen;
        if (rd->registered != rd->W) vio("harness", "notifier started before all waiters registered");
        if (rd->notify_under_lock) rd->cv.notify_all();
        lk.unlock();
        if (!rd->notify_under_lock) rd->cv.notify_all();
        rd->t_notified_ns = now_ns();
        rd->notified = rd->W;
        break;
    }
    case k_one:
        for (int i = 0; i < rd->W; ++i)
        {
            {
                std::unique_lock<decltype(rd->m)> lk(rd->m);
                ++rd->tokens;
            }
            rd->cv.notify_one();
            rd->notified++;
        }
        break;
    case k_timed_edge:
    {
        // wait (OS-level spin, at most a few ms) until the common deadline plus a swept offset, then ONE notify_one
        auto at = rd->edge_deadline + std::chrono::microseconds(rd->edge_delta_us);
        while (std::chrono::steady_clock::now() < at) __builtin_ia32_pause();
        {
            std::unique_lock<decltype(rd->m)> lk(rd->m);
            rd->edge_notify_issued = true;
            if (rd->notify_under_lock) rd->cv.notify_one();
        }
        if (!rd->notify_under_lock) rd->cv.notify_one();
        rd->notified = rd->W;    // every waiter of the round is provided for: T deadlines and one notification
        {
            std::unique_lock<decltype(rd->m)> lk(rd->m);
            edge_evaluate(rd);
        }
        break;
    }
    case k_stop:
    case k_stop_timed:
        rd->src.request_stop();    // no user lock needed for a stop request
        rd->t_notified_ns = now_ns();
        rd->notified = rd->W;
        break;
    }
}

template <typename R>
static void launch_notifier(R* rd)
{
    if (rd->os_notifier) os_submit([rd] { notifier(rd); });
    else ex::execute(ex::thread_pool_scheduler{}, [rd] { notifier(rd); });
}

template <typename R, typename CVT>
static void waiter(R* rd, int idx)
{
    using lock_t = std::unique_lock<decltype(rd->m)>;
    // NB: in this pika version a timed wait keeps yielding until its deadline even when it was notified earlier, and
    // only then reports how it was woken - latency is not what the property is about, so "far" deadlines are a few
    // hundred ms, and a timeout verdict is judged against the stamp taken after the notification call returned.
    auto const span = std::chrono::milliseconds(120 + (idx * 37) % 200);
    std::uint64_t const deadline_ns = now_ns() + std::uint64_t(span.count()) * 1000000ull;
    auto far = std::chrono::steady_clock::now() + span;
    auto notified_well_before_deadline = [&] {
        std::uint64_t t = rd->t_notified_ns.load();
        return t != 0 && t + 20000000ull < deadline_ns;
    };
    lock_t lk(rd->m);
    std::uint64_t my_gen = rd->gen;
    if (rd->kind == k_timed_edge)
    {
        if (rd->registered == 0) rd->edge_deadline = std::chrono::steady_clock::now() + std::chrono::microseconds(1500 + rd->r.below(2000));
        ++rd->registered;
        // the untimed waiter (index W-1) is started by the last timed registrant so that it queues up behind them, and it
        // starts the notifier
        if (idx != rd->W - 1 && rd->registered == rd->W - 1) ex::execute(ex::thread_pool_scheduler{}, [rd] { waiter<R, CVT>(rd, rd->W - 1); });
        if (idx == rd->W - 1) launch_notifier(rd);
    }
    else if (++rd->registered == rd->W)
        launch_notifier(rd);
    switch (rd->kind)
    {
    case k_timed_edge:
        if (idx == rd->W - 1)
        {
            if (!rd->flag) rd->cv.wait(lk);    // single shot: woken by the round's notify_one, or released by edge_evaluate
        }
        else
        {
            auto st = rd->cv.wait_until(lk, rd->edge_deadline);
            if (st == pika::cv_status::no_timeout) rd->edge_no_timeout++;
            else
                g_edge_timeouts++;
            rd->edge_timed_returned++;
            edge_evaluate(rd);
        }
        break;
    case k_all:
        while (rd->gen == my_gen) rd->cv.wait(lk);
        break;
    case k_all_pred: rd->cv.wait(lk, [&] { return rd->flag; }); break;
    case k_one:
        while (rd->tokens == 0) rd->cv.wait(lk);
        --rd->tokens;
        break;
    case k_timed_far:
        if (idx & 1)
        {
            while (rd->gen == my_gen)
            {
                auto st = (idx & 2) ? rd->cv.wait_until(lk, far) : rd->cv.wait_for(lk, span);
                if (st == pika::cv_status::timeout)
                {
                    if (notified_well_before_deadline())
                        vio("timed:false-timeout", "timed wait notified >20 ms before its deadline reported cv_status::timeout");
                    // deadline passed without a (timely) notification: fall back to an untimed wait
                    while (rd->gen == my_gen) rd->cv.wait(lk);
                    break;
                }
            }
        }
        else
        {
            bool r = (idx & 2) ? rd->cv.wait_until(lk, far, [&] { return rd->flag; }) : rd->cv.wait_for(lk, span, [&] { return rd->flag; });
            if (r != rd->flag) vio("timed:pred-value", "predicate form of a timed wait returned a value different from pred()");
            if (!r && notified_well_before_deadline())
                vio("timed:false-timeout", "timed predicate wait notified >20 ms before its deadline returned false");
            while (!rd->flag) rd->cv.wait(lk);
        }
        break;
    case k_stop:
    case k_stop_timed:
        if constexpr (std::is_same_v<CVT, pika::condition_variable_any>)
        {
            bool r = rd->kind == k_stop ? rd->cv.wait(lk, rd->src.get_token(), [&] { return rd->flag; }) :
                                          rd->cv.wait_for(lk, rd->src.get_token(), span, [&] { return rd->flag; });
            if (r) vio("stop:pred-value", "stop-token wait returned true although the predicate is false");
            if (!rd->src.stop_requested())
            {
                if (rd->kind == k_stop) vio("stop:early-return", "stop-token wait returned without stop being requested");
                else    // timed form may legitimately time out first; then wait untimed for the stop
                    if (rd->cv.wait(lk, rd->src.get_token(), [&] { return rd->flag; })) vio("stop:pred-value", "stop-token wait returned true");
            }
        }
        break;
    }
    // returned: the user lock must be re-acquired
    if (!lk.owns_lock()) vio("lock-not-held", "wait returned without the user lock");
    if (++rd->inside != 1) vio("lock-not-held", "two waiters inside the user lock after wait returned");
    if ((rd->kind == k_all || rd->kind == k_all_pred || rd->kind == k_timed_far) && rd->payload != 0xC0FFEE00 + rd->gen)
        vio("visibility", "data written by the notifier under the user lock not visible to the woken waiter");
    --rd->inside;
    lk.unlock();
    g_kind_done[rd->kind]++;
    g_woken++;
    if (++rd->woken == rd->W) g_rounds_done++;
}

template <typename CV, typename L>
static bool run(runtime_cfg const& cfg, std::uint64_t rounds, std::uint64_t batch, unsigned os_share, bool os_waiters_ok, std::string const& only)
{
    using R = round_t<CV, L>;
    rng r(g_seed);
    // the rounds live until every task and OS job that may still touch them has finished (a notifier writes its stamps after
    // its last notification, i.e. possibly after the last waiter has already reported); on failure they are never freed
    auto& all = *new std::vector<std::unique_ptr<R>>();
    std::uint64_t started = 0, expect = 0;
    while (started < rounds)
    {
        std::uint64_t n = std::min(batch, rounds - started);
        std::size_t base = all.size();
        std::vector<std::thread> oswaiters;
        for (std::uint64_t i = 0; i < n; ++i)
        {
            auto rd = std::make_unique<R>();
            for (;;)
            {
                rd->kind = (int) r.below(k_count);
                if ((rd->kind == k_timed_far || rd->kind == k_stop_timed || rd->kind == k_timed_edge) && only == "all" && !r.chance(1, 3)) continue;
                // the edge scenario needs task waiters (timed waits of plain OS threads: known finding D14) and a task notifier
                if (rd->kind == k_timed_edge && (std::is_same_v<L, std::mutex> || os_waiters_ok)) continue;
                if ((rd->kind == k_stop || rd->kind == k_stop_timed) && !std::is_same_v<CV, pika::condition_variable_any>) continue;
                if (only != "all" && only != kind_name[rd->kind]) continue;
                // timed waits of plain OS threads are exercised in their own cases (selected with --kind) so that a
                // failure there is keyed separately from the untimed OS-thread rounds
                if (only == "all" && std::is_same_v<L, std::mutex> && (rd->kind == k_timed_far || rd->kind == k_stop_timed)) continue;
                break;
            }
            rd->W = 1 + (int) r.below(r.chance(1, 4) ? 24 : 5);
            // pika::mutex may only be used from pika tasks: an OS-thread notifier is possible only where it needs no
            // pika::mutex (other lock types, or a stop request, which takes no user lock)
            rd->os_notifier = r.below(100) < os_share &&
                (!std::is_same_v<L, pika::mutex> || rd->kind == k_stop || rd->kind == k_stop_timed);
            // std::mutex as user lock: plain OS threads only (a pika task must not block its worker in std::mutex::lock)
            if (std::is_same_v<L, std::mutex>)
            {
                rd->os_notifier = true;
                rd->W = 1 + (int) r.below(6);
            }
            rd->notify_under_lock = r.chance(1, 3);
            rd->r = rng(g_seed * 17 + all.size());
            if (rd->kind == k_timed_edge)
            {
                rd->W = 3 + (int) r.below(7);    // 2-8 timed waiters + the untimed one
                rd->os_notifier = false;
                rd->edge_delta_us = (int) r.below(120) - 40;
            }
            expect += rd->W;
            all.push_back(std::move(rd));
        }
        for (std::size_t i = base; i < all.size(); ++i)
        {
            R* rd = all[i].get();
            for (int w = 0; w < (rd->kind == k_timed_edge ? rd->W - 1 : rd->W); ++w)
            {
                bool os = os_waiters_ok;
                if (os)
                {
                    external_begin();
                    oswaiters.emplace_back([rd, w] {
                        waiter<R, CV>(rd, w);
                        external_end();
                    });
                    report.bit("os_waiter");
                }
                else
                    ex::execute(ex::thread_pool_scheduler{}, [rd, w] { waiter<R, CV>(rd, w); });
            }
        }
        started += n;
        // OS waiters blocked inside wait are "external activity" only until they block; to keep the verdict
        // state-based we count them as external for their whole life and let the watchdog use the stall rule for them
        auto wr = wait_quiescent([&] { return g_woken.load() >= expect; }, [&] { return g_woken.load(); }, g_stall);
        if (wr != wait_result::done)
        {
            std::uint64_t stuck_rounds = 0;
            for (auto& rd : all)
            {
                if (rd->woken.load() == rd->W) continue;
                ++stuck_rounds;
                bool issued = rd->notified.load() >= rd->W;
                bool blocked_in_notify = !issued && rd->notify_started.load();
                std::string key = std::string(issued ? "lost-notify:" : (blocked_in_notify ? "notifier-blocked:" : "no-notify-issued:")) + kind_name[rd->kind] +
                    (wr == wait_result::deadlock ? "" : ":stalled");
                vio(key, sf("round with %d waiters: %d registered, %d notifications issued (%s), only %d woken; runtime %s; cfg=%s %s", rd->W,
                             rd->registered, rd->notified.load(), rd->os_notifier ? "OS-thread notifier" : "task notifier", rd->woken.load(),
                             wr == wait_result::deadlock ? "quiescent" : "without progress", cfg.describe().c_str(), pool_state().c_str()));
            }
            report.add("stuck_rounds", stuck_rounds);
            for (auto& t : oswaiters) t.detach();
            return false;
        }
        for (auto& t : oswaiters) t.join();
    }
    pika::wait();
    while (g_external_busy.load() != 0) std::this_thread::sleep_for(std::chrono::microseconds(200));
    pika::wait();
    delete &all;
    return true;
}

int main(int argc, char** argv)
{
    args_t a(argc, argv);
    report.property = "C07";
    runtime_cfg cfg;
    cfg.scheduler = a.str("scheduler", "local-priority-fifo");
    cfg.threads = (unsigned) a.u64("threads", 4);
    cfg.bind_none = !a.has("bind");
    std::string combo = a.str("combo", "cv+mutex");
    g_combo = combo;
    std::uint64_t rounds = a.u64("rounds", 300), batch = a.u64("batch", 24);
    unsigned os_share = (unsigned) a.u64("os", 30);
    std::string profile = a.str("perturb", "window");
    std::string only = a.str("kind", "all");
    g_stall = (double) a.u64("stall", 40);
    install_hooks();
    if (profile == "window")
    {
        g_perturb.set(pv::cva_before_lock, 0.3, 80);
        g_perturb.set(pv::cva_after_user_unlock, 0.2, 60);
        g_perturb.set(pv::cv_wait_enqueued, 0.3, 100);
        g_perturb.set(pv::cv_wait_timed_enqueued, 0.3, 100);
        g_perturb.set(pv::yield_before_switch, 0.1, 80);
    }
    else if (profile == "notify")
    {
        g_perturb.set(pv::cv_notify_one, 0.3, 80);
        g_perturb.set(pv::cv_notify_all, 0.3, 80);
        g_perturb.set(pv::stop_before_cas, 0.3, 60);
        g_perturb.set(pv::stop_dequeued, 0.3, 60);
        g_perturb.set(pv::sts_before_cas, 0.2, 60);
        g_perturb.set(pv::cva_before_lock, 0.2, 60);
    }
    else if (profile == "light")
        g_perturb.set_all(0.004, 40);
    report.cases = 1;
    bool ok = true;
    {
        runtime rt(cfg);
        std::vector<std::thread> ospool;
        for (int i = 0; i < 3; ++i) ospool.emplace_back(os_loop);
        if (combo == "cv+mutex") ok = run<pika::condition_variable, pika::mutex>(cfg, rounds, batch, os_share, false, only);
        else if (combo == "any+mutex") ok = run<pika::condition_variable_any, pika::mutex>(cfg, rounds, batch, os_share, false, only);
        else if (combo == "any+stdmutex") ok = run<pika::condition_variable_any, std::mutex>(cfg, rounds, batch, os_share, true, only);
        else
        {
            report.inconc("unknown combo " + combo);
            ok = false;
        }
        auto t = totals();
        report.add("waiters_woken", g_woken.load());
        report.add("rounds", g_rounds_done.load());
        for (int k = 0; k < k_count; ++k) report.add(std::string("woken_") + kind_name[k], g_kind_done[k].load());
        report.bit("blocked_waiter", t.hits[pv::cv_wait_enqueued]);
        report.bit("timed_blocked_waiter", t.hits[pv::cv_wait_timed_enqueued]);
        report.bit("notify_one_handoff", t.hits[pv::cv_notify_one]);
        report.bit("notify_all_handoff", t.hits[pv::cv_notify_all]);
        report.bit("stop_callback_ran", t.hits[pv::stop_dequeued]);
        report.bit("resume_found_target_active", t.hits[pv::sts_active_helper]);
        report.bit("delays", t.delays);
        report.add("edge_notification_taken_by_timed_waiter", g_edge_consumed_by_timed.load());
        report.add("edge_notification_taken_by_untimed_waiter", g_edge_consumed_by_untimed.load());
        report.add("edge_timed_waiters_timed_out", g_edge_timeouts.load());
        report.bit("edge_notify_hit_timed_waiter", g_edge_consumed_by_timed.load());
        report.bit("edge_notify_after_all_timed_out", g_edge_consumed_by_untimed.load());
        std::string sig = cfg.describe() + "|" + combo + "|" + profile + "|" + only + "|";
        for (auto& kv : report.bits) sig += kv.second ? "1" : "0";
        report.signature(sig);
        report.sample(sf("{\"cfg\":\"%s\",\"combo\":\"%s\",\"perturb\":\"%s\",\"rounds\":%lu,\"waiters\":%lu,\"blocked\":%lu,\"target_active\":%lu}",
            cfg.describe().c_str(), combo.c_str(), profile.c_str(), (unsigned long) g_rounds_done.load(), (unsigned long) g_woken.load(),
            (unsigned long) (t.hits[pv::cv_wait_enqueued] + t.hits[pv::cv_wait_timed_enqueued]), (unsigned long) t.hits[pv::sts_active_helper]));
        if (!ok) bail(0);
        {
            std::lock_guard<std::mutex> l(g_osq_m);
            g_osq_stop = true;
        }
        g_osq_cv.notify_all();
        for (auto& th : ospool) th.join();
        pika::wait();
    }
    report.emit();
    return 0;
}
