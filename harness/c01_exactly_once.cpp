// C01: every submitted task runs exactly once, on one worker at a time.
//
// One process = one runtime incarnation (policy x workers x stealing mode) running one seeded
// random task program.  Oracles: (a) per-task ledger spawned == entered == exited == 1 after
// pika::wait(); (b) single-runner monitor fed by the scheduling-loop hooks; (c) conservation of
// the hooked queue operations at quiescence; (d) task identity constant inside a body and
// distinct among live bodies (sampled).
#include "common/verif.hpp"

#include <pika/concurrency/spinlock.hpp>
#include <pika/execution_base/this_thread.hpp>
#include <mutex>

using namespace verif;
using pika::execution::thread_priority;
using pika::execution::thread_stacksize;

struct slot
{
    std::atomic<std::uint8_t> spawned{0}, entered{0}, exited{0};
    std::atomic<std::uint8_t> stage{0};    // what the body is doing (diagnostics for the deadlock witness)
    std::atomic<std::uint32_t> aux{0};
};

struct waitcell
{
    pika::concurrency::detail::spinlock m;
    bool flag = false;
    bool registered = false;
    pika::execution::detail::agent_ref agent;
};

static std::vector<slot>* g_slots;
static std::atomic<std::uint64_t> g_next{0};
static std::uint64_t g_cap = 0;
static std::atomic<std::uint64_t> g_done{0};
static unsigned g_workers = 1;
static int g_maxdepth = 6;
static std::atomic<std::uint64_t> g_suspends{0}, g_yields{0}, g_threads{0}, g_joined{0}, g_idchanged{0},
    g_migrations{0};

// live-id registry for oracle (d): small open table of currently running task ids
constexpr std::size_t LIVE = 1 << 12;
static std::atomic<std::uintptr_t> g_live[LIVE];
static std::atomic<std::uint64_t> g_live_dup{0}, g_live_checked{0};

static void body(std::uint64_t id, int depth);
static pika::concurrency::detail::spinlock g_hot_lock;    // deliberately contended
static std::uint64_t g_hot_value = 0;
static std::atomic<std::uint64_t> g_spinwaits{0};

static std::uint64_t alloc_id()
{
    std::uint64_t id = g_next.fetch_add(1);
    if (id >= g_cap)
    {
        g_next.fetch_sub(1);
        return ~0ull;
    }
    return id;
}

// NB: no thread_local in task code - a task may resume on another worker and the compiler may reuse the TLS address
static void spawn(int depth, rng& r, std::atomic<std::uint8_t>* g_cur_stage = nullptr)
{
    std::uint64_t id = alloc_id();
    if (id == ~0ull) return;
    (*g_slots)[id].spawned.fetch_add(1);
    static thread_priority const prios[] = {thread_priority::low, thread_priority::normal,
        thread_priority::normal, thread_priority::normal, thread_priority::high, thread_priority::boost};
    static thread_stacksize const stks[] = {thread_stacksize::small_, thread_stacksize::small_,
        thread_stacksize::small_, thread_stacksize::medium, thread_stacksize::large, thread_stacksize::huge};
    ex::thread_pool_scheduler s{};
    auto sp = ex::with_stacksize(ex::with_priority(s, prios[r.below(6)]), stks[r.below(6)]);
    if (r.chance(1, 4)) sp = ex::with_hint(sp, pika::execution::thread_schedule_hint((std::int16_t) r.below(g_workers)));
    switch (r.below(5))
    {
    case 0: ex::execute(sp, [id, depth] { body(id, depth); }); break;
    case 1: ex::start_detached(ex::schedule(sp) | ex::then([id, depth] { body(id, depth); })); break;
    case 2: ex::start_detached(ex::transfer_just(sp, id) | ex::then([depth](std::uint64_t i) { body(i, depth); })); break;
    case 3:
        if (pika::threads::detail::get_self_ptr())
        {
            g_threads++;
            pika::thread t([id, depth] { body(id, depth); });
            if (!t.joinable()) report.bit("thread_not_joinable");    // C13's business (shared-priority), not judged here
            if (t.joinable() && r.chance(1, 3))
            {
                if (g_cur_stage) { g_cur_stage->store(5); }
                t.join();
                if (g_cur_stage) { g_cur_stage->store(1); }
                g_joined++;
                if ((*g_slots)[id].exited.load() != 1)
                    report.violation("C01:ledger:join-before-exit", sf("task %lu joined but exited=%u", (unsigned long) id, (*g_slots)[id].exited.load()));
            }
            else
                t.detach();
            break;
        }
        [[fallthrough]];
    default: ex::execute(s, [id, depth] { body(id, depth); }); break;
    }
}

static void body(std::uint64_t id, int depth)
{
    auto& sl = (*g_slots)[id];
    sl.entered.fetch_add(1);
    sl.stage = 1;
    rng r(g_seed * 7919 + id * 104729 + 13);
    auto self0 = pika::threads::detail::get_self_id();
    std::uintptr_t selfp = (std::uintptr_t) self0.get();
    bool reg = false;
    std::size_t h = 0;
    if ((id & 7) == 0 && selfp)
    {
        // oracle (d): register this live task id, detect another live body with the same id
        h = (selfp >> 6) % LIVE;
        for (std::size_t i = 0; i < 8; ++i)
        {
            auto& c = g_live[(h + i) % LIVE];
            std::uintptr_t cur = c.load();
            if (cur == selfp)
            {
                g_live_dup++;
                break;
            }
            std::uintptr_t e = 0;
            if (cur == 0 && c.compare_exchange_strong(e, selfp))
            {
                reg = true;
                h = (h + i) % LIVE;
                g_live_checked++;
                break;
            }
        }
    }
    unsigned w0 = pika::get_worker_thread_num();
    int k = (int) r.below(4);
    for (int i = 0; i < k; ++i)
    {
        pika::this_thread::yield();
        g_yields++;
    }
    if (depth > 0)
    {
        int w = 1 + (int) r.below(depth >= g_maxdepth - 1 ? 4 : 3);
        for (int i = 0; i < w; ++i)
        {
            spawn(depth - 1, r, &sl.stage);
        }
    }
    if (r.chance(1, 10))
    {
        // spin-wait (yield_k escalation -> pending_boost phases) on a flag that only this, already running, parent
        // sets: the child never waits for a task that may not have been started yet
        auto flag = std::make_shared<std::atomic<bool>>(false);
        std::uint64_t cid = alloc_id();
        if (cid != ~0ull)
        {
            (*g_slots)[cid].spawned.fetch_add(1);
            ex::execute(ex::thread_pool_scheduler{}, [flag, cid, depth] {
                pika::util::yield_while([&] { return !flag->load(std::memory_order_acquire); }, "c01 spin child");
                g_spinwaits++;
                body(cid, depth > 0 ? depth - 1 : 0);
            });
            sl.stage = 2;
            int k2 = (int) r.below(6);
            for (int i = 0; i < k2; ++i) pika::this_thread::yield();
            spin_us((unsigned) r.below(40));
            flag->store(true, std::memory_order_release);
        }
    }
    if (r.chance(1, 8))
    {
        // short critical sections under one hot pika spinlock: contended waiters escalate through yield_k
        sl.stage = 3;
        for (int i = 0; i < 3; ++i)
        {
            std::lock_guard l(g_hot_lock);
            g_hot_value++;
            spin_us(1 + (unsigned) r.below(3));
        }
    }
    if (r.chance(1, 6))
    {
        // suspend and get resumed by a one-shot waker (task or, sometimes, a detached OS thread)
        auto cell = std::make_shared<waitcell>();
        bool os_waker = r.chance(1, 8);
        sl.stage = os_waker ? 41 : 40;
        auto waker = [cell] {
            for (;;)
            {
                std::unique_lock l(cell->m);
                if (cell->registered)
                {
                    cell->flag = true;
                    cell->agent.resume();
                    return;
                }
                l.unlock();
                if (pika::threads::detail::get_self_ptr()) pika::this_thread::yield();
                else std::this_thread::yield();
            }
        };
        if (os_waker)
        {
            external_begin();
            std::thread([waker] {
                waker();
                external_end();
            }).detach();
        }
        else ex::execute(ex::thread_pool_scheduler{}, waker);
        {
            std::unique_lock l(cell->m);
            cell->agent = pika::execution::this_thread::detail::agent();
            cell->registered = true;
            while (!cell->flag)
            {
                l.unlock();
                cell->agent.suspend();
                l.lock();
            }
        }
        g_suspends++;
        sl.stage = 1;
    }
    if (r.chance(1, 4))
    {
        pika::this_thread::yield();
        g_yields++;
    }
    if (pika::get_worker_thread_num() != w0) g_migrations++;
    if (pika::threads::detail::get_self_id() != self0) g_idchanged++;
    if (reg) g_live[h].store(0);
    sl.exited.fetch_add(1);
    g_done.fetch_add(1);
}

int main(int argc, char** argv)
{
    args_t a(argc, argv);
    report.property = "C01";
    runtime_cfg cfg;
    cfg.scheduler = a.str("scheduler", "local-priority-fifo");
    cfg.threads = g_workers = (unsigned) a.u64("threads", 4);
    cfg.bind_none = !a.has("bind");
    g_cap = a.u64("tasks", 40000);
    g_maxdepth = (int) a.u64("depth", 6);
    unsigned submitters = (unsigned) a.u64("submitters", 2);
    std::string mode = a.str("mode", "default");
    std::string perturb = a.str("perturb", "light");
    if (mode == "tight")
    {
        // small limits force the cleanup / recycle / "add_new under pressure" paths
        cfg.extra.push_back("--pika:ini=pika.thread_queue.max_terminated_threads=10");
        cfg.extra.push_back("--pika:ini=pika.thread_queue.max_thread_count=20");
        cfg.extra.push_back("--pika:ini=pika.thread_queue.min_tasks_to_steal_pending=0");
        cfg.extra.push_back("--pika:ini=pika.thread_queue.min_tasks_to_steal_staged=0");
    }
    std::vector<slot> slots(g_cap);
    g_slots = &slots;
    install_hooks();
    g_sr_enabled = true;
    if (perturb == "light") g_perturb.set_all(0.002, 30);
    if (perturb == "sched")
    {
        for (unsigned s : {(unsigned) pv::sched_after_run, (unsigned) pv::sched_after_store, (unsigned) pv::tq_get_next,
                 (unsigned) pv::tq_schedule, (unsigned) pv::yield_before_switch, (unsigned) pv::sts_before_cas,
                 (unsigned) pv::sts_before_schedule, (unsigned) pv::tq_recycle, (unsigned) pv::tq_destroy})
            g_perturb.set(s, 0.02, 60);
    }
    report.cases = 1;
    {
        runtime rt(cfg);
        if (mode == "nosteal")
        {
            auto& pool = pika::resource::get_thread_pool("default");
            pool.get_scheduler()->remove_scheduler_mode(pika::threads::scheduler_mode::enable_stealing);
        }
        std::vector<std::thread> ext;
        // roots come from the main thread and the external submitters; the trees below them fill the budget
        std::uint64_t roots = std::max<std::uint64_t>(g_cap / 12, 4) / (submitters + 1);
        for (unsigned t = 0; t < submitters; ++t)
            ext.emplace_back([t, roots] {
                rng r(g_seed * 31 + t);
                for (std::uint64_t i = 0; i < roots; ++i)
                {
                    spawn(g_maxdepth, r);
                    if ((i & 63) == 63) std::this_thread::yield();
                }
            });
        {
            rng r(g_seed * 37 + 99);
            for (std::uint64_t i = 0; i < roots; ++i) spawn(g_maxdepth, r);
        }
        for (auto& t : ext) t.join();
        // every id is allocated by a task that is still running (or by a joined submitter), so
        // done == allocated means no task is left that could allocate more
        auto wr = wait_quiescent([&] { auto d = g_done.load(); return d == g_next.load() && d == g_done.load(); }, [&] { return g_done.load(); });
        std::uint64_t total = g_next.load();
        if (wr == wait_result::deadlock)
        {
            std::uint64_t missing = 0, first = ~0ull;
            for (std::uint64_t i = 0; i < total; ++i)
                if (slots[i].exited != 1)
                {
                    ++missing;
                    if (first == ~0ull) first = i;
                }
            report.violation("C01:ledger:dropped:deadlock",
                sf("quiescent with %lu/%lu tasks unfinished (first id %lu entered=%u stage=%u [1 running,2 after spawning spin child,3 hot "
                   "spinlock,40/41 suspended awaiting task/OS waker,5 joining]) cfg=%s %s", (unsigned long) missing,
                    (unsigned long) total, (unsigned long) first, first != ~0ull ? slots[first].entered.load() : 0,
                    first != ~0ull ? slots[first].stage.load() : 0, cfg.describe().c_str(), pool_state().c_str()));
            bail(0);
        }
        if (wr == wait_result::stalled)
        {
            report.inconc("stalled: busy without ledger progress for 60 s, cfg=" + cfg.describe());
            bail(0);
        }
        pika::wait();
        // ---- oracle (a)
        std::uint64_t bad = 0;
        for (std::uint64_t i = 0; i < total; ++i)
        {
            auto& s = slots[i];
            if (s.spawned != 1 || s.entered != 1 || s.exited != 1)
            {
                if (bad++ == 0)
                    report.violation(s.entered > 1 ? "C01:ledger:duplicate" : "C01:ledger:dropped",
                        sf("task %lu spawned=%u entered=%u exited=%u cfg=%s", (unsigned long) i, s.spawned.load(),
                            s.entered.load(), s.exited.load(), cfg.describe().c_str()));
            }
        }
        // ---- oracle (b)
        if (g_sr_violations.load())
            report.violation("C01:single-runner",
                sf("%lu overlapping executions of one thread object (e.g. %p) cfg=%s", (unsigned long) g_sr_violations.load(),
                    (void*) g_sr_witness.load(), cfg.describe().c_str()));
        // ---- oracle (d)
        if (g_idchanged.load())
            report.violation("C01:identity:changed", sf("%lu bodies saw their task id change", (unsigned long) g_idchanged.load()));
        if (g_live_dup.load())
            report.violation("C01:identity:shared", sf("%lu live bodies shared a task id", (unsigned long) g_live_dup.load()));
        // ---- oracle (c): conservation at quiescence.
        auto t = totals();
        std::uint64_t sch = t.hits[pv::tq_schedule], got = t.hits[pv::tq_get_next];
        std::uint64_t staged = t.hits[pv::tq_stage], conv = t.hits[pv::tq_add_new];
        std::uint64_t before = t.hits[pv::sched_before_run], after = t.hits[pv::sched_after_run];
        if (sch != got)
            report.violation("C01:conservation:queue", sf("schedule_thread=%lu get_next_thread=%lu at quiescence cfg=%s",
                                                           (unsigned long) sch, (unsigned long) got, cfg.describe().c_str()));
        if (staged != conv)
            report.violation("C01:conservation:staged", sf("staged=%lu converted=%lu at quiescence cfg=%s", (unsigned long) staged,
                                                            (unsigned long) conv, cfg.describe().c_str()));
        if (before != after)
            report.violation("C01:conservation:phases", sf("before_run=%lu after_run=%lu", (unsigned long) before, (unsigned long) after));
        auto& pool = pika::resource::get_thread_pool("default");
        auto unknown = pool.get_thread_count_unknown(std::size_t(-1), false);
        // the count includes terminated-but-not-yet-cleaned-up objects; only pending/active/suspended/staged must be 0
        std::int64_t live = pool.get_thread_count_pending(std::size_t(-1), false) + pool.get_thread_count_active(std::size_t(-1), false) +
            pool.get_thread_count_suspended(std::size_t(-1), false) + pool.get_thread_count_staged(std::size_t(-1), false);
        if (live != 0)
            report.violation("C01:conservation:live-after-wait", sf("%ld threads pending/active/suspended/staged after wait() (%s)", (long) live, pool_state().c_str()));
        (void) unknown;
        report.add("tasks", total);
        report.add("phases", before);
        report.add("single_runner_checked", g_sr_checked.load());
        report.add("yields", g_yields.load());
        report.add("suspends", g_suspends.load());
        report.add("pika_threads", g_threads.load());
        report.add("joined", g_joined.load());
        report.add("live_id_checked", g_live_checked.load());
        report.bit("steal", t.steals);
        report.bit("staged_steal", t.staged_steals);
        report.bit("migration", g_migrations.load());
        report.bit("recycle_reuse", t.hits[pv::tq_reuse]);
        report.bit("cas_lost", t.hits[pv::sched_cas_lost] + t.hits[pv::sched_store_lost]);
        report.bit("helper_retry", t.hits[pv::sts_active_helper]);
        report.bit("staged", staged);
        report.bit("pending_boost_phase", t.stored_state[7]);
        report.add("spinwaits", g_spinwaits.load());
        std::string sig = cfg.describe() + "|" + mode + "|";
        for (auto& kv : report.bits) sig += kv.second ? "1" : "0";
        report.signature(sig);
        report.sample(sf("{\"cfg\":\"%s\",\"mode\":\"%s\",\"perturb\":\"%s\",\"seed\":%lu,\"tasks\":%lu,\"phases\":%lu,\"steals\":%lu,\"suspends\":%lu}",
            cfg.describe().c_str(), mode.c_str(), perturb.c_str(), (unsigned long) g_seed, (unsigned long) total, (unsigned long) before,
            (unsigned long) t.steals, (unsigned long) g_suspends.load()));
    }
    report.emit();
    return 0;
}
