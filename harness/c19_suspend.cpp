// C19: suspending and resuming pools or workers never loses work.
// A worker pool "w" (policy, size, elastic or not) next to the default pool.  Drivers (main OS thread, a task on the
// default pool) run histories of suspend/resume of processing units and of the whole pool while submitters feed "w" with
// un-hinted, hinted (also to suspended workers), high-priority and blocking tasks.  Oracles: task ledger, no body on a
// worker inside its suspended interval, calls return (watchdog), refused operations leave the pool running.
#include "common/verif.hpp"

#include <pika/latch.hpp>

using namespace verif;

static void vio(std::string const& what, std::string const& detail) { report.violation("C19:" + what, detail); }

static pika::threads::detail::thread_pool_base* g_w = nullptr;
static unsigned g_n = 0;
static std::atomic<std::uint64_t> g_submitted{0}, g_done{0}, g_on_suspended{0}, g_hinted_to_suspended{0}, g_blocked_released{0}, g_pu_cycles{0}, g_pool_cycles{0},
    g_rt_cycles{0}, g_refusals{0};
static std::atomic<std::uint32_t> g_susp_mask{0};    // bit i set: worker i is inside [suspend returned, resume called]
static std::atomic<bool> g_pool_suspended{false};
static std::string g_pol;

static void body(int blocked_on, std::shared_ptr<pika::latch> l, std::shared_ptr<std::atomic<int>> reg)
{
    auto check = [] {
        if (pika::this_thread::get_pool() != g_w) return;
        unsigned w = (unsigned) pika::get_local_worker_thread_num();
        if (g_susp_mask.load() & (1u << w))
        {
            g_on_suspended++;
            vio("ran-on-suspended-worker:" + g_pol, sf("a task body is executing on worker %u of the pool while that worker is suspended", w));
        }
        if (g_pool_suspended.load()) vio("ran-on-suspended-pool:" + g_pol, "a task body is executing on the pool while the whole pool is suspended");
    };
    check();
    if (blocked_on >= 0)
    {
        (*reg)++;
        l->wait();    // blocked while its worker gets suspended; released by the driver after the suspend call returned
        g_blocked_released++;
    }
    else if ((g_done.load() & 3) == 0)
        pika::this_thread::yield();
    check();
    g_done++;
}

static void submit(rng& r, int force_hint = -1)
{
    ex::thread_pool_scheduler s{g_w};
    int hint = force_hint >= 0 ? force_hint : (r.chance(1, 3) ? (int) r.below(g_n) : -1);
    if (hint >= 0)
    {
        s = ex::with_hint(s, pika::execution::thread_schedule_hint((std::int16_t) hint));
        if (g_susp_mask.load() & (1u << hint)) g_hinted_to_suspended++;
    }
    if (r.chance(1, 6)) s = ex::with_priority(s, pika::execution::thread_priority::high);
    g_submitted++;
    ex::execute(s, [] { body(-1, nullptr, nullptr); });
}

// one suspend/resume cycle of a processing unit; `from_task`: issued from a task of the default pool
static void pu_cycle(rng& r, bool with_blocked)
{
    unsigned v = 1 + (unsigned) r.below(g_n - 1);    // worker 0 always keeps running
    std::shared_ptr<pika::latch> l;
    auto reg = std::make_shared<std::atomic<int>>(0);
    int K = 0;
    if (with_blocked)
    {
        K = 1 + (int) r.below(6);
        l = std::make_shared<pika::latch>(1);
        for (int i = 0; i < K; ++i)
        {
            g_submitted++;
            auto s = ex::with_hint(ex::thread_pool_scheduler{g_w}, pika::execution::thread_schedule_hint((std::int16_t) v));
            ex::execute(s, [l, reg, v] { body((int) v, l, reg); });
        }
        // bounded wait until they are blocked (they may also have been stolen; that is fine)
        for (int i = 0; i < 2000 && reg->load() < K; ++i)
        {
            if (pika::threads::detail::get_self_ptr()) pika::this_thread::yield();
            else std::this_thread::yield();
        }
    }
    g_w->suspend_processing_unit_direct(v);
    g_susp_mask |= (1u << v);
    if (l) l->count_down(1);    // their wake-up must not need the suspended worker
    int extra = (int) r.below(12);
    for (int i = 0; i < extra; ++i) submit(r, r.chance(1, 2) ? (int) v : -1);    // work hinted to the suspended worker
    if (r.chance(1, 2)) spin_us((unsigned) r.below(200));
    g_susp_mask &= ~(1u << v);
    g_w->resume_processing_unit_direct(v);
    g_pu_cycles++;
}

static void pool_cycle(rng& r)
{
    // suspend_direct() waits until the pool is idle: no blocked tasks here
    int extra = (int) r.below(10);
    for (int i = 0; i < extra; ++i) submit(r);
    g_w->suspend_direct();
    g_pool_suspended = true;
    for (int i = 0; i < 6; ++i) submit(r);    // queued while suspended: must run after resume
    spin_us((unsigned) r.below(100));
    g_pool_suspended = false;
    g_w->resume_direct();
    g_pool_cycles++;
}

int main(int argc, char** argv)
{
    args_t a(argc, argv);
    report.property = "C19";
    int pol = (int) a.u64("policy", 1);
    g_pol = policy_names[pol & 7];
    g_n = (unsigned) a.u64("size", 4);
    bool elastic = a.u64("elastic", 1) != 0;
    std::string mode = a.str("mode", "history");
    int cycles = (int) a.u64("cycles", 200);
    runtime_cfg cfg;
    cfg.scheduler = "local-priority-fifo";
    cfg.threads = g_n + 2;
    cfg.bind_none = false;
    cfg.rp = [pol, elastic](pika::resource::partitioner& rp, pika::program_options::variables_map const&) {
        using pika::threads::scheduler_mode;
        rp.create_thread_pool("w", (pika::resource::scheduling_policy) pol,
            elastic ? scheduler_mode(scheduler_mode::default_mode | scheduler_mode::enable_elasticity) : scheduler_mode::default_mode);
        int n = 0;
        for (auto const& s : rp.sockets())
            for (auto const& c : s.cores())
                for (auto const& pu : c.pus())
                {
                    if (n >= 2 && n < 2 + (int) g_n) rp.add_resource(pu, "w");
                    ++n;
                }
    };
    install_hooks();
    std::string profile = a.str("perturb", "pu");
    if (profile == "pu")
    {
        g_perturb.set(pv::pu_suspend, 0.5, 200);
        g_perturb.set(pv::pu_resume, 0.2, 60);
        g_perturb.set(pv::select_active_pu, 0.002, 20);
    }
    else if (profile == "light")
        g_perturb.set_all(0.003, 30);
    report.cases = 1;
    bool ok = true;
    {
        runtime rt(cfg);
        g_w = &pika::resource::get_thread_pool("w");
        if (g_w->get_os_thread_count() != g_n) vio("layout", "worker pool has the wrong size");
        std::atomic<bool> stop_submit{false};
        std::atomic<int> drivers_done{0};
        std::thread sub;
        if (mode == "refuse")
        {
            // operations the pool does not support must be refused with an error and leave the pool running
            std::size_t before = g_w->get_active_os_thread_count();
            pika::error_code ec(pika::throwmode::lightweight);
            g_w->suspend_processing_unit_direct(1, ec);
            g_refusals++;
            if (elastic)
            {
                if (ec) vio("refusal:spurious", "suspending a processing unit of an elastic pool was refused");
                else g_w->resume_processing_unit_direct(1);
            }
            else
            {
                if (!ec) vio("refusal:not-reported:" + g_pol, "suspend_processing_unit_direct(i, ec) on a pool without elasticity did not report an error");
                if (g_w->get_active_os_thread_count() != before)
                    vio("refusal:pool-not-left-running:" + g_pol,
                        sf("suspend_processing_unit_direct(i, ec) on a pool without elasticity reported an error but %zu of %zu workers are active afterwards", g_w->get_active_os_thread_count(), before));
                bool thrown = false;
                try
                {
                    g_w->suspend_processing_unit_direct(2);
                }
                catch (pika::exception const& e)
                {
                    thrown = e.get_error() == pika::error::invalid_status;
                }
                if (!thrown) vio("refusal:not-reported:" + g_pol, "suspend_processing_unit_direct(i) on a pool without elasticity did not throw invalid_status");
                if (g_w->get_active_os_thread_count() != before) vio("refusal:pool-not-left-running:" + g_pol, "refused (throwing) suspend changed the active worker count");
                g_refusals++;
                // hinted work for the "refused" workers must still run without anyone resuming them
                rng r(g_seed);
                for (int i = 0; i < 60; ++i) submit(r, 1 + (i % (g_n - 1)));
            }
            std::uint64_t target = g_submitted.load();
            auto wr = wait_quiescent([&] { return g_done.load() >= target; }, [&] { return g_done.load(); }, 30.0);
            if (wr != wait_result::done)
            {
                vio("refusal:pool-not-left-running:" + g_pol + (wr == wait_result::deadlock ? ":deadlock" : ":stalled"),
                    sf("after a refused suspend only %lu of %lu tasks hinted to the affected workers ran; active workers %zu; %s", (unsigned long) g_done.load(), (unsigned long) target,
                        g_w->get_active_os_thread_count(), pool_state().c_str()));
                ok = false;
            }
        }
        else
        {
            sub = std::thread([&] {
                external_begin();
                rng r(g_seed * 3 + 1);
                while (!stop_submit.load())
                {
                    submit(r);
                    if ((g_submitted.load() & 31) == 0) std::this_thread::yield();
                    // rate limit: the history is bounded by cycles, not by how fast this thread can submit
                    while (g_submitted.load() > 400 * (g_pu_cycles.load() + 1) && !stop_submit.load()) std::this_thread::sleep_for(std::chrono::microseconds(100));
                    // bounded backlog: every queued task owns a stack
                    while (g_submitted.load() - g_done.load() > 1500 && !stop_submit.load()) std::this_thread::sleep_for(std::chrono::microseconds(200));
                }
                external_end();
            });
            // driver 1: task on the default pool; driver 2: this OS thread
            ex::execute(ex::thread_pool_scheduler{&pika::resource::get_thread_pool("default")}, [&, cycles] {
                rng r(g_seed * 5 + 2);
                for (int i = 0; i < cycles; ++i)
                {
                    if (elastic) pu_cycle(r, r.chance(1, 2));
                    for (int k = 0; k < 5; ++k) submit(r);
                    pika::this_thread::yield();
                }
                drivers_done++;
            });
            {
                rng r(g_seed * 7 + 3);
                for (int i = 0; i < cycles && drivers_done.load() == 0; ++i)
                {
                    // the OS-thread driver uses a disjoint set of workers only when the pool is large enough; otherwise it
                    // only submits (two drivers must not suspend the same worker twice)
                    for (int k = 0; k < 8; ++k) submit(r, r.chance(1, 2) ? (int) r.below(g_n) : -1);
                    std::this_thread::yield();
                }
            }
            // progress = completed suspend/resume cycles (tasks keep completing on the other workers even if a call hangs)
            auto wr = wait_quiescent([&] { return drivers_done.load() == 1; }, [&] { return g_pu_cycles.load() + (elastic ? 0 : g_done.load()); }, 30.0);
            stop_submit = true;
            if (wr != wait_result::done)
            {
                vio("call-did-not-return:pu:" + g_pol + (wr == wait_result::deadlock ? ":deadlock" : ":stalled"),
                    sf("suspend/resume_processing_unit_direct did not return after %lu cycles (%lu tasks done of %lu); %s", (unsigned long) g_pu_cycles.load(),
                        (unsigned long) g_done.load(), (unsigned long) g_submitted.load(), pool_state().c_str()));
                ok = false;
                sub.detach();
            }
            else
            {
                sub.join();
                // pool-level cycles from the OS thread, with all PUs resumed
                rng r(g_seed * 11 + 4);
                std::atomic<bool> pc_done{false};
                std::thread pc([&] {
                    external_begin();
                    for (int i = 0; i < cycles / 8 + 1; ++i) pool_cycle(r);
                    pc_done = true;
                    external_end();
                });
                auto wr2 = wait_quiescent([&] { return pc_done.load(); }, [&] { return g_pool_cycles.load(); }, 30.0);
                if (wr2 != wait_result::done)
                {
                    vio("call-did-not-return:pool:" + g_pol, sf("suspend_direct/resume_direct did not return after %lu cycles; %s", (unsigned long) g_pool_cycles.load(), pool_state().c_str()));
                    ok = false;
                    pc.detach();
                }
                else
                    pc.join();
            }
            if (ok)
            {
                std::uint64_t target = g_submitted.load();
                auto wr3 = wait_quiescent([&] { return g_done.load() >= target; }, [&] { return g_done.load(); }, 40.0);
                if (wr3 != wait_result::done)
                {
                    vio("ledger:lost-task:" + g_pol + (wr3 == wait_result::deadlock ? ":deadlock" : ":stalled"),
                        sf("%lu of %lu submitted tasks finished after all workers were resumed; active workers %zu; %s", (unsigned long) g_done.load(), (unsigned long) target,
                            g_w->get_active_os_thread_count(), pool_state().c_str()));
                    ok = false;
                }
                else if (g_done.load() != target) vio("ledger:duplicate:" + g_pol, "more task completions than submissions");
                if (g_w->get_active_os_thread_count() != g_n) vio("active-count", sf("%zu of %u workers active after every suspend was matched by a resume", g_w->get_active_os_thread_count(), g_n));
            }
            if (ok && a.u64("runtime_cycles", 1))
            {
                // runtime-level suspend/resume (from the main OS thread)
                rng r(g_seed * 13 + 5);
                for (int i = 0; i < 5; ++i)
                {
                    pika::suspend();
                    g_pool_suspended = true;
                    for (int k = 0; k < 10; ++k) submit(r);
                    g_pool_suspended = false;
                    pika::resume();
                    pika::wait();
                    g_rt_cycles++;
                }
                if (g_done.load() != g_submitted.load()) vio("ledger:lost-task:runtime-suspend", "work queued while the runtime was suspended did not all run after resume()");
            }
        }
        auto t = totals();
        report.add("tasks", g_done.load());
        report.add("pu_cycles", g_pu_cycles.load());
        report.add("pool_cycles", g_pool_cycles.load());
        report.add("runtime_cycles", g_rt_cycles.load());
        report.add("refusal_checks", g_refusals.load());
        report.bit("pu_suspended", t.hits[pv::pu_suspend]);
        report.bit("hinted_to_suspended_worker", g_hinted_to_suspended.load());
        report.bit("blocked_task_during_suspend", g_blocked_released.load());
        report.bit("pool_cycle", g_pool_cycles.load());
        report.bit("runtime_cycle", g_rt_cycles.load());
        report.bit("refusal", g_refusals.load());
        std::string sig = sf("%s/%u/elastic=%d|%s|%s|", g_pol.c_str(), g_n, (int) elastic, mode.c_str(), profile.c_str());
        for (auto& kv : report.bits) sig += kv.second ? "1" : "0";
        report.signature(sig);
        report.sample(sf("{\"pool\":\"%s\",\"size\":%u,\"elastic\":%d,\"mode\":\"%s\",\"tasks\":%lu,\"pu_cycles\":%lu,\"pool_cycles\":%lu}", g_pol.c_str(), g_n, (int) elastic,
            mode.c_str(), (unsigned long) g_done.load(), (unsigned long) g_pu_cycles.load(), (unsigned long) g_pool_cycles.load()));
        if (!ok) bail(0);
    }
    report.emit();
    return 0;
}
