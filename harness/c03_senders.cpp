// C03: sender adaptors deliver exactly one, correct completion signal.
//   dynamic : random terms over the adaptors, built at run time with every node re-erased to unique_any_sender<tv>, compared
//             with a reference interpreter that computes the set of admissible completions
//   static  : the un-erased shapes of common/static_shapes.hpp x leaf channel x leaf timing
// Terminal consumers: a recording receiver that deletes its operation state inside the completion call, sync_wait and
// start_detached (only where pika defines them: no stopped for sync_wait, values only for start_detached).
#include "common/static_shapes.hpp"

using namespace verif;
using namespace vs;
using S = ex::unique_any_sender<tv>;

static void vio(std::string const& what, std::string const& detail) { report.violation("C03:" + what, detail); }

struct built
{
    S s;
    std::set<outcome> exp;
    std::string desc;
};

static std::atomic<std::uint64_t> g_nodes{0}, g_terms{0}, g_stopped_terms{0}, g_error_terms{0}, g_value_terms{0}, g_sync_wait{0}, g_detached{0}, g_recorded{0},
    g_multi_outcome{0};
static bool g_allow_stop_everywhere = true;
static std::string g_focus = "";    // restrict adaptors (used by dedicated scenario classes)

static built gen(int depth, rng& r);

static built gen_leaf(rng& r)
{
    built b;
    int v = 1 + (int) r.below(50);
    ex::thread_pool_scheduler sched{};
    int k = (int) r.below(10);
    ++g_nodes;
    if (k == 0)
    {
        b.s = ex::just(tv(v));
        b.exp = {{c_value, v}};
        b.desc = sf("just(%d)", v);
    }
    else if (k == 1)
    {
        b.s = ex::transfer_just(sched, tv(v));
        b.exp = {{c_value, v}};
        b.desc = sf("transfer_just(%d)", v);
    }
    else if (k == 2)
    {
        b.s = ex::schedule(sched) | ex::then([v] { return tv(v); });
        b.exp = {{c_value, v}};
        b.desc = sf("schedule|then(%d)", v);
    }
    else
    {
        int c = (int) r.below(20);
        c = c < 12 ? c_value : (c < 17 ? c_error : c_stopped);
        int t = (int) r.below(3);
        b.s = leaf_sender{v, c, t};
        b.exp = {{c, c == c_stopped ? 0 : v}};
        b.desc = sf("leaf(%d,%s,%s)", v, c == c_value ? "value" : (c == c_error ? "error" : "stopped"), t == t_inline ? "inline" : (t == t_pool ? "pool" : "thread"));
    }
    return b;
}

template <typename F>
static std::set<outcome> map_exp(std::set<outcome> const& in, F&& f)
{
    std::set<outcome> out;
    for (auto& o : in) out.insert(f(o));
    return out;
}

// n-ary combination (when_all semantics): all values -> combined value, otherwise any non-value member may win
static std::set<outcome> combine(std::vector<std::set<outcome>> const& ch, std::function<int(std::vector<int> const&)> f)
{
    std::set<outcome> out;
    std::vector<outcome> cur(ch.size());
    std::function<void(std::size_t)> rec = [&](std::size_t i) {
        if (i == ch.size())
        {
            bool allv = true;
            for (auto& o : cur) allv = allv && o.first == c_value;
            if (allv)
            {
                std::vector<int> vals;
                for (auto& o : cur) vals.push_back(o.second);
                out.insert({c_value, f(vals)});
            }
            else
                for (auto& o : cur)
                    if (o.first != c_value) out.insert(o);
            return;
        }
        for (auto& o : ch[i])
        {
            cur[i] = o;
            rec(i + 1);
        }
    };
    rec(0);
    return out;
}

static built gen(int depth, rng& r)
{
    if (depth <= 0 || r.chance(1, 6)) return gen_leaf(r);
    ex::thread_pool_scheduler sched{};
    ++g_nodes;
    int kind = (int) r.below(17);
    int k = 1 + (int) r.below(9);
    built b;
    switch (kind)
    {
    case 0:    // then
    case 1:
    {
        built c = gen(depth - 1, r);
        bool throws = kind == 1 && r.chance(1, 2);
        b.s = std::move(c.s) | ex::then([k, throws](tv x) {
            if (throws) throw verr(1000 + k);
            return tv(x.get() * 3 + k);
        });
        b.exp = map_exp(c.exp, [&](outcome o) { return o.first != c_value ? o : (throws ? outcome{c_error, 1000 + k} : outcome{c_value, o.second * 3 + k}); });
        b.desc = sf("then%s(%d, %s)", throws ? "!" : "", k, c.desc.c_str());
        break;
    }
    case 2:    // let_value
    {
        built c = gen(depth - 1, r);
        int ic = (int) r.below(10);
        ic = ic < 6 ? c_value : (ic < 8 ? c_error : c_stopped);
        int it = (int) r.below(3);
        bool use_leaf = r.chance(1, 2);
        b.s = std::move(c.s) | ex::let_value([k, ic, it, use_leaf](tv& x) -> S {
            if (use_leaf) return leaf_sender{x.get() + k, ic, it};
            return ex::just(tv(x.get() + k));
        });
        b.exp = map_exp(c.exp, [&](outcome o) {
            if (o.first != c_value) return o;
            if (!use_leaf || ic == c_value) return outcome{c_value, o.second + k};
            return ic == c_error ? outcome{c_error, o.second + k} : outcome{c_stopped, 0};
        });
        b.desc = sf("let_value(%d,%s, %s)", k, use_leaf ? (ic == c_value ? "leafV" : (ic == c_error ? "leafE" : "leafS")) : "just", c.desc.c_str());
        break;
    }
    case 3:    // let_error
    {
        built c = gen(depth - 1, r);
        b.s = std::move(c.s) | ex::let_error([k](std::exception_ptr ep) -> S { return ex::just(tv(err_code(ep) + k)); });
        b.exp = map_exp(c.exp, [&](outcome o) { return o.first == c_error ? outcome{c_value, o.second + k} : o; });
        b.desc = sf("let_error(%d, %s)", k, c.desc.c_str());
        break;
    }
    case 4:    // continues_on
    {
        built c = gen(depth - 1, r);
        b.s = std::move(c.s) | ex::continues_on(sched);
        b.exp = c.exp;
        b.desc = "continues_on(" + c.desc + ")";
        break;
    }
    case 5:    // when_all 2..3
    {
        int n = 2 + (int) r.below(2);
        std::vector<built> ch;
        for (int i = 0; i < n; ++i) ch.push_back(gen(depth - 1, r));
        std::vector<std::set<outcome>> es;
        for (auto& c : ch) es.push_back(c.exp);
        if (n == 2)
            b.s = ex::when_all(std::move(ch[0].s), std::move(ch[1].s)) | ex::then([](tv a, tv c) { return tv(a.get() + 7 * c.get()); });
        else
            b.s = ex::when_all(std::move(ch[0].s), std::move(ch[1].s), std::move(ch[2].s)) | ex::then([](tv a, tv c, tv d) { return tv(a.get() + 7 * c.get() + 49 * d.get()); });
        b.exp = combine(es, [](std::vector<int> const& v) {
            int s = 0, w = 1;
            for (int x : v)
            {
                s += w * x;
                w *= 7;
            }
            return s;
        });
        b.desc = "when_all(";
        for (auto& c : ch) b.desc += c.desc + ", ";
        b.desc += ")";
        break;
    }
    case 6:    // when_all_vector
    {
        int n = 1 + (int) r.below(4);
        std::vector<S> v;
        std::vector<std::set<outcome>> es;
        b.desc = "when_all_vector(";
        for (int i = 0; i < n; ++i)
        {
            built c = gen(depth - 1, r);
            v.push_back(std::move(c.s));
            es.push_back(c.exp);
            b.desc += c.desc + ", ";
        }
        b.desc += ")";
        b.s = ex::when_all_vector(std::move(v)) | ex::then([](std::vector<tv> rs) {
            int s = 0, w = 1;
            for (auto& x : rs)
            {
                s += w * x.get();
                ++w;
            }
            return tv(s);
        });
        b.exp = combine(es, [](std::vector<int> const& v) {
            int s = 0, w = 1;
            for (int x : v)
            {
                s += w * x;
                ++w;
            }
            return s;
        });
        break;
    }
    case 7:    // split with 2..4 consumers
    {
        built c = gen(depth - 1, r);
        int n = 2 + (int) r.below(3);
        auto sp = ex::split(std::move(c.s));
        std::vector<S> cons;
        for (int i = 0; i < n; ++i)
        {
            if (r.chance(1, 2)) cons.push_back(sp | ex::continues_on(sched) | ex::then([i](tv const& x) { return tv(x.get() + i); }));
            else cons.push_back(sp | ex::then([i](tv const& x) { return tv(x.get() + i); }));
        }
        b.s = ex::when_all_vector(std::move(cons)) | ex::then([](std::vector<tv> rs) {
            int s = 0;
            for (auto& x : rs) s += x.get();
            return tv(s);
        });
        b.exp = map_exp(c.exp, [&](outcome o) { return o.first == c_value ? outcome{c_value, n * o.second + n * (n - 1) / 2} : o; });
        b.desc = sf("split%d(%s)", n, c.desc.c_str());
        break;
    }
    case 8:    // split_tuple
    {
        built c = gen(depth - 1, r);
        auto [a, bb] = ex::split_tuple(std::move(c.s) | ex::then([](tv x) {
            int v = x.get();
            return std::make_tuple(tv(v), tv(v + 1));
        }));
        b.s = ex::when_all(S(std::move(a)), S(std::move(bb))) | ex::then([](tv x, tv y) { return tv(x.get() + 7 * y.get()); });
        b.exp = map_exp(c.exp, [&](outcome o) { return o.first == c_value ? outcome{c_value, o.second + 7 * (o.second + 1)} : o; });
        b.desc = "split_tuple(" + c.desc + ")";
        break;
    }
    case 9:    // ensure_started
    {
        built c = gen(depth - 1, r);
        b.s = ex::ensure_started(std::move(c.s));
        b.exp = c.exp;
        b.desc = "ensure_started(" + c.desc + ")";
        break;
    }
    case 10:    // drop_value
    {
        built c = gen(depth - 1, r);
        b.s = ex::drop_value(std::move(c.s)) | ex::then([k] { return tv(k); });
        b.exp = map_exp(c.exp, [&](outcome o) { return o.first == c_value ? outcome{c_value, k} : o; });
        b.desc = sf("drop_value(%d, %s)", k, c.desc.c_str());
        break;
    }
    case 11:
    {
        built c = gen(depth - 1, r);
        b.s = ex::drop_operation_state(std::move(c.s));
        b.exp = c.exp;
        b.desc = "drop_operation_state(" + c.desc + ")";
        break;
    }
    case 12:
    {
        built c = gen(depth - 1, r);
        b.s = ex::require_started(std::move(c.s));
        b.exp = c.exp;
        b.desc = "require_started(" + c.desc + ")";
        break;
    }
    case 13:    // unpack
    {
        built c = gen(depth - 1, r);
        b.s = std::move(c.s) | ex::then([k](tv x) { return std::make_tuple(std::move(x), tv(k)); }) | ex::unpack() |
            ex::then([](tv a, tv bb) { return tv(a.get() + 5 * bb.get()); });
        b.exp = map_exp(c.exp, [&](outcome o) { return o.first == c_value ? outcome{c_value, o.second + 5 * k} : o; });
        b.desc = sf("unpack(%d, %s)", k, c.desc.c_str());
        break;
    }
    case 14:    // bulk on the pool
    {
        built c = gen(depth - 1, r);
        int n = (int) r.below(30);
        bool throws = r.chance(1, 5) && n > 0;
        b.s = std::move(c.s) | ex::continues_on(sched) | ex::bulk(n, [throws, k, n](int i, tv& x) {
            (void) x.get();
            if (throws && i == n / 2) throw verr(2000 + k);
        });
        b.exp = map_exp(c.exp, [&](outcome o) { return o.first == c_value && throws ? outcome{c_error, 2000 + k} : o; });
        b.desc = sf("bulk%s(%d, %s)", throws ? "!" : "", n, c.desc.c_str());
        break;
    }
    default:    // two-level: let_value returning a composed sender
    {
        built c = gen(depth - 1, r);
        b.s = std::move(c.s) | ex::let_value([k](tv& x) -> S {
            return ex::transfer_just(ex::thread_pool_scheduler{}, tv(x.get())) | ex::then([k](tv y) { return tv(y.get() + 100 * k); });
        });
        b.exp = map_exp(c.exp, [&](outcome o) { return o.first == c_value ? outcome{c_value, o.second + 100 * k} : o; });
        b.desc = sf("let_value_composed(%d, %s)", k, c.desc.c_str());
        break;
    }
    }
    if (b.exp.size() > 1) ++g_multi_outcome;
    return b;
}

static std::string show_set(std::set<outcome> const& s)
{
    std::string o = "{";
    for (auto& x : s) o += show(x) + " ";
    return o + "}";
}

struct pending_case
{
    std::shared_ptr<record> rec;
    std::set<outcome> exp;
    std::string desc;
    char const* consumer;
};

static void judge(pending_case const& pc)
{
    int n = pc.rec->signals.load();
    if (n != 1)
    {
        vio(n == 0 ? "completion:none" : "completion:multiple", sf("%d completion signals on the terminal receiver (%s) for %s", n, pc.consumer, pc.desc.c_str()));
        return;
    }
    if (pc.rec->signalled_after_destroy.load()) vio("completion:after-destroy", "a signal arrived after the operation state had been destroyed: " + pc.desc);
    outcome got{pc.rec->channel.load(), pc.rec->value.load()};
    if (!pc.exp.count(got)) vio("completion:wrong", sf("got %s, admissible %s for %s", show(got).c_str(), show_set(pc.exp).c_str(), pc.desc.c_str()));
    if (got.first == c_value) ++g_value_terms;
    else if (got.first == c_error) ++g_error_terms;
    else ++g_stopped_terms;
}

// ---- consumers of one shared-state adaptor connected and started at the same instant from different threads
static std::atomic<std::uint64_t> g_conc_rounds{0};
static bool run_concurrent(runtime_cfg const& cfg, std::uint64_t rounds)
{
    rng r(g_seed);
    for (std::uint64_t rd = 0; rd < rounds; ++rd)
    {
        int v = 1 + (int) r.below(50);
        int c = (int) r.below(10);
        c = c < 6 ? c_value : (c < 8 ? c_error : c_stopped);
        int t = (int) r.below(3);
        int k = 2 + (int) r.below(3);
        bool tuple = r.chance(1, 3);
        if (tuple) k = 2;
        auto calls = std::make_shared<std::atomic<int>>(0);
        auto go = std::make_shared<std::atomic<int>>(0);
        std::vector<std::shared_ptr<record>> recs(k);
        for (auto& x : recs) x = std::make_shared<record>();
        auto pred = leaf_sender{v, c, t} | ex::then([calls](tv x) {
            (*calls)++;
            return x;
        });
        std::vector<std::function<void()>> starters;
        if (!tuple)
        {
            auto sp = ex::split(std::move(pred));
            for (int i = 0; i < k; ++i)
                starters.push_back([sp, i, rec = recs[i], go, k]() mutable {
                    auto snd = sp | ex::then([i](tv const& x) { return tv(x.get() + i); });
                    using op_t = decltype(ex::connect(std::move(snd), rec_receiver<tv>{rec}));
                    auto* op = new op_t(ex::connect(std::move(snd), rec_receiver<tv>{rec}));
                    rec->op = op;
                    rec->del = [](void* p) { delete static_cast<op_t*>(p); };
                    go->fetch_add(1);
                    for (int spin = 0; spin < 2000000 && go->load() < k; ++spin) _mm_pause();    // line the first start() calls up (bounded)
                    ex::start(*op);
                });
        }
        else
        {
            auto tup = ex::split_tuple(std::move(pred) | ex::then([](tv x) {
                int vv = x.get();
                return std::make_tuple(tv(vv), tv(vv + 1));
            }));
            auto mk = [&](auto snd, int i) {
                starters.push_back([snd = std::move(snd), rec = recs[i], go, k]() mutable {
                    using op_t = decltype(ex::connect(std::move(snd), rec_receiver<tv>{rec}));
                    auto* op = new op_t(ex::connect(std::move(snd), rec_receiver<tv>{rec}));
                    rec->op = op;
                    rec->del = [](void* p) { delete static_cast<op_t*>(p); };
                    go->fetch_add(1);
                    for (int spin = 0; spin < 2000000 && go->load() < k; ++spin) _mm_pause();
                    ex::start(*op);
                });
            };
            mk(std::move(std::get<0>(tup)), 0);
            mk(std::move(std::get<1>(tup)), 1);
        }
        std::vector<std::thread> ths;
        for (int i = 0; i < k; ++i)
        {
            auto fn = std::make_shared<std::function<void()>>(std::move(starters[i]));
            if (i % 2 == 0 || cfg.threads < 2)
            {
                external_begin();
                ths.emplace_back([fn] {
                    (*fn)();
                    external_end();
                });
            }
            else
                ex::execute(ex::thread_pool_scheduler{}, [fn] { (*fn)(); });
        }
        auto wr = wait_quiescent(
            [&] {
                for (auto& x : recs)
                    if (!x->done.load()) return false;
                return true;
            },
            [&] { return g_terminal_signals.load(); }, 30.0);
        for (auto& th : ths) th.join();
        if (wr != wait_result::done)
        {
            vio(std::string("completion:none:concurrent-consumers") + (wr == wait_result::deadlock ? ":deadlock" : ":stalled"),
                sf("a consumer of %s never got a completion signal (leaf %s timing %d, %d consumers started concurrently)", tuple ? "split_tuple" : "split", show({c, v}).c_str(), t, k));
            return false;
        }
        pika::wait();
        int expect_calls = c == c_value ? 1 : 0;
        if (calls->load() != expect_calls)
            vio("predecessor-ran-twice", sf("the predecessor of %s ran its callable %d times with %d consumers started concurrently (expected %d)", tuple ? "split_tuple" : "split",
                                            calls->load(), k, expect_calls));
        for (int i = 0; i < k; ++i)
        {
            outcome want = c == c_value ? outcome{c_value, tuple ? v + i : v + i} : outcome{c, c == c_stopped ? 0 : v};
            outcome got{recs[i]->channel.load(), recs[i]->value.load()};
            if (recs[i]->signals.load() != 1) vio("completion:multiple:concurrent-consumers", sf("consumer %d got %d signals", i, recs[i]->signals.load()));
            else if (got != want) vio("completion:wrong:concurrent-consumers", sf("consumer %d got %s, expected %s", i, show(got).c_str(), show(want).c_str()));
            if (recs[i]->signalled_after_destroy.load()) vio("completion:after-destroy", "consumer signalled after its operation state was destroyed");
        }
        if (tv::double_destroy.load() || tv::used_dead.load()) vio("ledger:double-destroy", "tracked value destroyed twice / used after destruction");
        g_conc_rounds++;
    }
    return true;
}

int main(int argc, char** argv)
{
    args_t a(argc, argv);
    report.property = "C03";
    runtime_cfg cfg;
    cfg.scheduler = a.str("scheduler", "local-priority-fifo");
    cfg.threads = (unsigned) a.u64("threads", 4);
    cfg.bind_none = !a.has("bind");
    std::string mode = a.str("mode", "dynamic");
    std::uint64_t terms = a.u64("terms", 1500);
    int maxdepth = (int) a.u64("depth", 5);
    install_hooks();
    std::string profile = a.str("perturb", "ss");
    if (profile == "ss")
    {
        g_perturb.set(pv::ss_done, 0.3, 40);
        g_perturb.set(pv::ss_add, 0.3, 40);
        g_perturb.set(pv::when_all_finish, 0.1, 30);
    }
    else if (profile == "light")
        g_perturb.set_all(0.004, 30);
    report.cases = 1;
    bool ok = true;
    {
        runtime rt(cfg);
        if (mode == "concurrent")
        {
            ok = run_concurrent(cfg, terms);
            report.add("concurrent_rounds", g_conc_rounds.load());
            report.bit("concurrent_consumer_rounds", g_conc_rounds.load());
            report.signature(cfg.describe() + "|concurrent|1");
            report.sample(sf("{\"mode\":\"concurrent\",\"rounds\":%lu}", (unsigned long) g_conc_rounds.load()));
            if (!ok) bail(0);
            terms = 0;
        }
        rng r(g_seed);
        std::uint64_t done_terms = 0;
        std::uint64_t batch = 64;
        std::vector<std::string> sample_descs;
        while (done_terms < terms && ok)
        {
            std::vector<pending_case> pend;
            std::atomic<int> sw_done{0};
            int sw_launched = 0;
            std::uint64_t n = std::min(batch, terms - done_terms);
            for (std::uint64_t i = 0; i < n; ++i)
            {
                if (mode == "static")
                {
                    int id = (int) ((done_terms + i) % N_SHAPES);
                    int c = (int) r.below(3), t = (int) r.below(3), v = 1 + (int) r.below(40), k = 1 + (int) r.below(9);
                    leaf_sender leaf{v, c, t};
                    outcome lo{c, c == c_stopped ? 0 : v};
                    pending_case pc;
                    pc.exp = {shape_ref(id, lo, k)};
                    pc.desc = sf("static shape %d on leaf %s timing %d k=%d", id, show(lo).c_str(), t, k);
                    pc.consumer = "recording receiver";
                    with_shape(id, leaf, k, [&](auto&& snd) { pc.rec = run_recorded<tv>(std::move(snd)); });
                    ++g_recorded;
                    pend.push_back(std::move(pc));
                    ++g_terms;
                    continue;
                }
                built b = gen(1 + (int) r.below(maxdepth), r);
                ++g_terms;
                if (std::getenv("VERIF_DEBUG")) std::fprintf(stderr, "TERM %lu: %s\n", (unsigned long) g_terms.load(), b.desc.c_str());
                if (sample_descs.size() < 3) sample_descs.push_back(b.desc.substr(0, 400));
                bool has_stop = false, all_val = true;
                for (auto& o : b.exp)
                {
                    has_stop = has_stop || o.first == c_stopped;
                    all_val = all_val && o.first == c_value;
                }
                int cons = (int) r.below(10);
                if (cons < 2 && !has_stop)
                {
                    // sync_wait from a task (returns the value or throws the error)
                    ++g_sync_wait;
                    ++sw_launched;
                    auto sp = std::make_shared<built>(std::move(b));
                    ex::execute(ex::thread_pool_scheduler{}, [sp, &sw_done] {
                        outcome got;
                        try
                        {
                            tv x = tt::sync_wait(std::move(sp->s));
                            got = {c_value, x.get()};
                        }
                        catch (verr const& e)
                        {
                            got = {c_error, e.code};
                        }
                        catch (...)
                        {
                            got = {c_error, -1};
                        }
                        if (!sp->exp.count(got)) vio("completion:wrong:sync_wait", sf("sync_wait gave %s, admissible %s for %s", show(got).c_str(), show_set(sp->exp).c_str(), sp->desc.c_str()));
                        if (got.first == c_value) ++g_value_terms;
                        else ++g_error_terms;
                        sw_done++;
                    });
                }
                else if (cons < 4 && all_val)
                {
                    // start_detached: the side effect ledger is a final then()
                    ++g_detached;
                    pending_case pc;
                    pc.rec = std::make_shared<record>();
                    pc.exp = b.exp;
                    pc.desc = b.desc;
                    pc.consumer = "start_detached";
                    auto rec = pc.rec;
                    ex::start_detached(std::move(b.s) | ex::then([rec](tv x) {
                        rec->channel = c_value;
                        rec->value = x.get();
                        rec->signals++;
                        rec->done = true;
                    }));
                    pend.push_back(std::move(pc));
                }
                else
                {
                    ++g_recorded;
                    pending_case pc;
                    pc.exp = b.exp;
                    pc.desc = b.desc;
                    pc.consumer = "recording receiver";
                    pc.rec = run_recorded<tv>(std::move(b.s));
                    pend.push_back(std::move(pc));
                }
            }
            done_terms += n;
            auto all_done = [&] {
                if (sw_done.load() < sw_launched) return false;
                for (auto& pc : pend)
                    if (!pc.rec->done.load()) return false;
                return true;
            };
            auto wr = wait_quiescent(all_done, [&] { return g_terminal_signals.load() + (std::uint64_t) sw_done.load(); }, 40.0);
            if (wr != wait_result::done)
            {
                for (auto& pc : pend)
                    if (!pc.rec->done.load())
                        vio(std::string("completion:none") + (wr == wait_result::deadlock ? ":deadlock" : ":stalled"),
                            sf("no completion signal reached the terminal receiver (%s); admissible %s; term %s", pc.consumer, show_set(pc.exp).c_str(), pc.desc.c_str()));
                if (sw_done.load() < sw_launched) vio("completion:none:sync_wait", "sync_wait never returned");
                ok = false;
                break;
            }
            if (std::getenv("VERIF_DEBUG")) std::fprintf(stderr, "BATCH done at %lu, pika::wait() ... %s\n", (unsigned long) done_terms, pool_state().c_str());
            pika::wait();
            // plain std::thread leaves are not covered by pika::wait(): let them finish unwinding their temporaries
            for (int i = 0; i < 200000 && g_external_busy.load() != 0; ++i) std::this_thread::sleep_for(std::chrono::microseconds(50));
            if (std::getenv("VERIF_DEBUG")) std::fprintf(stderr, "BATCH waited\n");
            for (auto& pc : pend) judge(pc);
            pend.clear();
            // instance ledger at quiescence
            if (tv::live.load() != 0)
                vio("ledger:live", sf("%ld tracked values alive after all pipelines of the batch completed (constructed %ld, destroyed %ld)", tv::live.load(), tv::constructed.load(), tv::destroyed.load()));
            if (tv::double_destroy.load() != 0) vio("ledger:double-destroy", sf("%ld tracked values destroyed twice", tv::double_destroy.load()));
            if (tv::used_dead.load() != 0) vio("ledger:use-after-destroy", sf("%ld reads of destroyed tracked values", tv::used_dead.load()));
        }
        auto t = totals();
        report.add("terms", g_terms.load());
        report.add("nodes", g_nodes.load());
        report.add("completed_value", g_value_terms.load());
        report.add("completed_error", g_error_terms.load());
        report.add("completed_stopped", g_stopped_terms.load());
        report.add("tracked_values_constructed", tv::constructed.load());
        report.bit("consumer_recording_receiver", g_recorded.load());
        report.bit("consumer_sync_wait", g_sync_wait.load());
        report.bit("consumer_start_detached", g_detached.load());
        report.bit("leaf_inline", g_leaf_inline.load());
        report.bit("leaf_on_pool", g_leaf_pool.load());
        report.bit("leaf_on_std_thread", g_leaf_thread.load());
        report.bit("shared_state_continuation_stored", t.sub[pv::ss_add][3]);
        report.bit("shared_state_inline_fast", t.sub[pv::ss_add][1]);
        report.bit("shared_state_inline_after_lock", t.sub[pv::ss_add][2]);
        report.bit("error_completion", g_error_terms.load());
        report.bit("stopped_completion", g_stopped_terms.load());
        report.bit("multi_outcome_term", g_multi_outcome.load());
        std::string sig = cfg.describe() + "|" + mode + "|" + profile + "|";
        for (auto& kv : report.bits) sig += kv.second ? "1" : "0";
        report.signature(sig);
        for (auto& d : sample_descs) report.sample("\"" + jesc(d) + "\"");
        if (sample_descs.empty()) report.sample(sf("{\"mode\":\"%s\",\"terms\":%lu}", mode.c_str(), (unsigned long) g_terms.load()));
        if (!ok) bail(0);
    }
    report.emit();
    return 0;
}
