// C14: stop_token - one winning stop request, each callback exactly once, never after its destructor returned,
// destructor waits for a callback running elsewhere (not for its own thread), stop_possible follows the sources.
//   model  : random sequential histories over stop_source/stop_token objects compared with a reference model after every op
//   race   : rounds with racing request_stop callers and callbacks registered/destroyed concurrently (tasks and OS threads)
#include "common/verif.hpp"

#include <pika/stop_token.hpp>

#include <condition_variable>
#include <deque>
#include <mutex>
#include <optional>

using namespace verif;

static void vio(std::string const& what, std::string const& detail) { report.violation("C14:" + what, detail); }
static std::atomic<std::uint64_t> g_progress{0};

// =============================================================================== model
struct mstate
{
    int sources = 0;
    bool requested = false;
};
static std::string run_model(std::uint64_t seed, int nops, std::uint64_t& checks, std::string* trace)
{
    rng r(seed);
    constexpr int N = 6;
    std::vector<std::optional<pika::stop_source>> S(N);
    std::vector<std::optional<pika::stop_token>> T(N);
    std::vector<int> ms(N, -2), mt(N, -2);    // -2: object does not exist, -1: exists without state, >=0: state index
    std::vector<mstate> st;
    auto check = [&](char const* op) -> std::string {
        for (int i = 0; i < N; ++i)
        {
            if (S[i])
            {
                bool mp = ms[i] >= 0, mr = ms[i] >= 0 && st[ms[i]].requested;
                if (S[i]->stop_possible() != mp) return sf("after %s: stop_source[%d].stop_possible()=%d, model %d", op, i, (int) S[i]->stop_possible(), (int) mp);
                if (S[i]->stop_requested() != mr) return sf("after %s: stop_source[%d].stop_requested()=%d, model %d", op, i, (int) S[i]->stop_requested(), (int) mr);
                checks += 2;
            }
            if (T[i])
            {
                bool mp = mt[i] >= 0 && (st[mt[i]].requested || st[mt[i]].sources > 0), mr = mt[i] >= 0 && st[mt[i]].requested;
                if (T[i]->stop_possible() != mp)
                    return sf("after %s: stop_token[%d].stop_possible()=%d, model %d (state has %d sources, requested=%d)", op, i, (int) T[i]->stop_possible(), (int) mp,
                        mt[i] >= 0 ? st[mt[i]].sources : -1, mt[i] >= 0 ? (int) st[mt[i]].requested : -1);
                if (T[i]->stop_requested() != mr) return sf("after %s: stop_token[%d].stop_requested()=%d, model %d", op, i, (int) T[i]->stop_requested(), (int) mr);
                checks += 2;
            }
        }
        return "";
    };
    auto drop_s = [&](int i) {
        if (ms[i] >= 0) st[ms[i]].sources--;
    };
    for (int n = 0; n < nops; ++n)
    {
        int i = (int) r.below(N), j = (int) r.below(N);
        int op = (int) r.below(16);
        char const* name = "";
        switch (op)
        {
        case 0:    // new source
            name = "S[i] = new stop_source";
            if (S[i]) drop_s(i);
            S[i].reset();
            S[i].emplace();
            st.push_back({1, false});
            ms[i] = (int) st.size() - 1;
            break;
        case 1:    // source without state
            name = "S[i] = stop_source(nostopstate)";
            if (S[i]) drop_s(i);
            S[i].reset();
            S[i].emplace(pika::nostopstate);
            ms[i] = -1;
            break;
        case 2:    // copy construct
            if (!S[j] || i == j) continue;
            name = "S[i] = copy-construct(S[j])";
            if (S[i]) drop_s(i);
            S[i].reset();
            S[i].emplace(*S[j]);
            ms[i] = ms[j];
            if (ms[i] >= 0) st[ms[i]].sources++;
            break;
        case 3:    // move construct
            if (!S[j] || i == j) continue;
            name = "S[i] = move-construct(S[j])";
            if (S[i]) drop_s(i);
            S[i].reset();
            S[i].emplace(std::move(*S[j]));
            ms[i] = ms[j];
            ms[j] = -1;
            break;
        case 4:    // copy assign (also self)
            if (!S[i] || !S[j]) continue;
            name = i == j ? "S[i] = S[i] (self copy-assign)" : "S[i] = S[j] (copy-assign)";
            *S[i] = *S[j];
            if (i != j)
            {
                drop_s(i);
                ms[i] = ms[j];
                if (ms[i] >= 0) st[ms[i]].sources++;
            }
            break;
        case 5:    // move assign
            if (!S[i] || !S[j] || i == j) continue;
            name = "S[i] = std::move(S[j]) (move-assign)";
            *S[i] = std::move(*S[j]);
            drop_s(i);
            ms[i] = ms[j];
            ms[j] = -1;
            break;
        case 6:    // swap
            if (!S[i] || !S[j]) continue;
            name = "swap(S[i], S[j])";
            S[i]->swap(*S[j]);
            std::swap(ms[i], ms[j]);
            break;
        case 7:    // destroy source
            if (!S[i]) continue;
            name = "destroy S[i]";
            drop_s(i);
            S[i].reset();
            ms[i] = -2;
            break;
        case 8:    // get token
            if (!S[j]) continue;
            name = "T[i] = S[j].get_token()";
            T[i].reset();
            T[i].emplace(S[j]->get_token());
            mt[i] = ms[j];
            break;
        case 9:    // default token
            name = "T[i] = stop_token()";
            T[i].reset();
            T[i].emplace();
            mt[i] = -1;
            break;
        case 10:    // token copy/move assign
            if (!T[i] || !T[j]) continue;
            if (r.chance(1, 2) || i == j)
            {
                name = "T[i] = T[j]";
                *T[i] = *T[j];
                mt[i] = mt[j];
            }
            else
            {
                name = "T[i] = std::move(T[j])";
                *T[i] = std::move(*T[j]);
                mt[i] = mt[j];
                mt[j] = -1;
            }
            break;
        case 11:
            if (!T[i] || !T[j]) continue;
            name = "swap(T[i], T[j])";
            T[i]->swap(*T[j]);
            std::swap(mt[i], mt[j]);
            break;
        case 12:
            if (!T[i]) continue;
            name = "destroy T[i]";
            T[i].reset();
            mt[i] = -2;
            break;
        case 13:    // request stop
        {
            if (!S[i]) continue;
            name = "S[i].request_stop()";
            bool expect = ms[i] >= 0 && !st[ms[i]].requested;
            bool got = S[i]->request_stop();
            if (got != expect) return sf("op %d: request_stop() returned %d, model %d", n, (int) got, (int) expect);
            if (ms[i] >= 0) st[ms[i]].requested = true;
            break;
        }
        case 14:    // equality
            if (!T[i] || !T[j]) continue;
            name = "T[i] == T[j]";
            if ((*T[i] == *T[j]) != (mt[i] == mt[j] || (mt[i] < 0 && mt[j] < 0))) return sf("op %d: token equality differs from the model", n);
            break;
        case 15:    // token copy construct
            if (!T[j] || i == j) continue;
            name = "T[i] = copy-construct(T[j])";
            T[i].reset();
            T[i].emplace(*T[j]);
            mt[i] = mt[j];
            break;
        }
        if (trace && trace->size() < 1500) *trace += std::string(name) + sf(" [i=%d j=%d]; ", i, j);
        std::string e = check(name);
        if (!e.empty()) return sf("op %d: ", n) + e;
    }
    return "";
}

// =============================================================================== race
// ---- OS-thread job pool
static std::mutex g_osq_m;
static std::condition_variable g_osq_cv;
static std::deque<std::function<void()>> g_osq;
static bool g_osq_stop = false;
static void os_loop()
{
    for (;;)
    {
        std::function<void()> job;
        {
            std::unique_lock<std::mutex> l(g_osq_m);
            g_osq_cv.wait(l, [] { return g_osq_stop || !g_osq.empty(); });
            if (g_osq.empty()) return;
            job = std::move(g_osq.front());
            g_osq.pop_front();
        }
        job();
        external_end();
    }
}
template <typename F>
static void launch(bool os, F&& f)
{
    if (os)
    {
        external_begin();
        {
            std::lock_guard<std::mutex> l(g_osq_m);
            g_osq.push_back(std::forward<F>(f));
        }
        g_osq_cv.notify_one();
    }
    else
        ex::execute(ex::thread_pool_scheduler{}, std::forward<F>(f));
}

struct cbcell
{
    std::atomic<int> runs{0};
    std::atomic<bool> alive{true};         // cleared by the owner right after the destructor returned
    std::atomic<bool> executing{false};
    std::atomic<bool> destroyed{false};
    std::atomic<bool> constructed{false};
    std::atomic<bool> registered_before_stop{false};
};
struct race_round;
struct cb_fn
{
    race_round* rd;
    int idx;
    void operator()() const;
};
using cb_t = pika::stop_callback<cb_fn>;
struct race_round
{
    pika::stop_source src;
    int ncb = 0, nstop = 0;
    std::vector<std::shared_ptr<cbcell>> cells;
    std::vector<std::unique_ptr<cb_t>> objs;          // slot i owned by registrar i until handed over
    std::vector<std::atomic<int>> owner_lock;         // 0 free, 1 being destroyed
    std::atomic<int> winners{0}, stoppers_done{0}, actors_left{0};
    std::atomic<bool> stop_returned{false};
    bool slow = false;
    int in_cb_action = 0;    // 0 none, 1 destroy another callback from inside, 2 destroy self from inside, 3 register a new callback from inside
    std::vector<std::unique_ptr<cb_t>> late;          // callbacks registered from inside callbacks
    std::mutex late_m;
    std::atomic<int> late_runs{0};
    race_round(int c)
      : cells(c)
      , objs(c)
      , owner_lock(c)
    {
    }
};
static std::atomic<std::uint64_t> g_rounds{0}, g_cb_runs{0}, g_cb_destroyed_before{0}, g_dtor_waited{0}, g_in_cb_destroy{0}, g_self_destroy{0}, g_late_reg{0},
    g_ctor_ran{0};

// slot lock: only around moving the unique_ptr in or out, never while a stop_callback constructor/destructor runs
static void slot_lock(race_round* rd, int i)
{
    int e = 0;
    while (!rd->owner_lock[i].compare_exchange_weak(e, 1, std::memory_order_acquire)) e = 0, _mm_pause();
}
static void slot_unlock(race_round* rd, int i) { rd->owner_lock[i].store(0, std::memory_order_release); }

static void destroy_cb(race_round* rd, int i, bool from_inside_own_callback)
{
    std::unique_ptr<cb_t> take;
    slot_lock(rd, i);
    take = std::move(rd->objs[i]);
    slot_unlock(rd, i);
    if (!take) return;    // not stored yet, or somebody else destroys it
    auto& cell = *rd->cells[i];
    take.reset();    // ~stop_callback
    // the destructor returned: unless we are inside that very callback, it must not be executing any more, and it
    // must never start from now on
    if (!from_inside_own_callback && cell.executing.load())
        vio("dtor-wait:" + std::string(pika::threads::detail::get_self_ptr() ? "task" : "os-thread"), "stop_callback destructor returned while the callback was still executing on another thread");
    cell.alive = false;
    cell.destroyed = true;
}

void cb_fn::operator()() const
{
    if (idx < 0)
    {
        rd->late_runs++;    // a callback registered from inside another callback: runs in its constructor
        return;
    }
    auto& cell = *rd->cells[idx];
    if (!cell.alive.load()) vio("callback-after-dtor", "callback invoked after its stop_callback destructor had returned");
    cell.executing = true;
    int n = cell.runs.fetch_add(1) + 1;
    if (n > 1) vio("callback-twice", sf("callback invoked %d times", n));
    g_cb_runs++;
    if (rd->slow) spin_us(15);
    if (!cell.alive.load()) vio("callback-after-dtor", "stop_callback destructor returned while its callback was executing elsewhere");
    switch (rd->in_cb_action)
    {
    case 1:
    {
        // destroy another callback object of the same state from inside a callback (often the next in line)
        int other = (idx + rd->ncb - 1) % rd->ncb;
        if (other != idx)
        {
            destroy_cb(rd, other, false);
            g_in_cb_destroy++;
        }
        break;
    }
    case 2:
        cell.executing = false;
        destroy_cb(rd, idx, true);    // self-deregistration: the destructor must not wait for its own thread
        g_self_destroy++;
        return;
    case 3:
    {
        auto cb = std::make_unique<pika::stop_callback<cb_fn>>(rd->src.get_token(), cb_fn{rd, -1});
        std::lock_guard<std::mutex> l(rd->late_m);
        rd->late.push_back(std::move(cb));
        g_late_reg++;
        break;
    }
    }
    cell.executing = false;
}

static void round_actor_done(race_round* rd)
{
    g_progress++;
    if (rd->actors_left.fetch_sub(1) == 1)
    {
        // all stoppers and registrars finished: final checks
        bool stopped = rd->src.stop_requested();
        if (rd->nstop > 0)
        {
            if (rd->winners.load() != 1) vio("winner-count", sf("%d of %d concurrent request_stop() calls returned true", rd->winners.load(), rd->nstop));
            if (!stopped) vio("stop-not-visible", "stop_requested() false after a winning request_stop() returned");
        }
        if (rd->late_runs.load() != (int) rd->late.size()) vio("callback-lost:late", "a callback registered after stop was requested did not run in its constructor");
        for (int i = 0; i < rd->ncb; ++i)
        {
            auto& c = *rd->cells[i];
            if (!c.constructed.load()) continue;
            int runs = c.runs.load();
            if (runs > 1) vio("callback-twice", sf("callback ran %d times", runs));
            if (stopped && !c.destroyed.load() && runs != 1)
                vio("callback-lost", sf("stop was requested but a registered, still alive callback ran %d times (registered %s the stop request completed)", runs,
                                         c.registered_before_stop.load() ? "before" : "after"));
            if (c.destroyed.load() && runs == 0) g_cb_destroyed_before++;
        }
        delete rd;
        g_rounds++;
    }
}

static bool run_race(runtime_cfg const& cfg, std::uint64_t rounds, std::uint64_t batch, unsigned os_share)
{
    rng r(g_seed);
    std::uint64_t started = 0;
    while (started < rounds)
    {
        std::uint64_t n = std::min(batch, rounds - started);
        std::uint64_t expect = g_progress.load();
        for (std::uint64_t i = 0; i < n; ++i)
        {
            int ncb = (int) r.below(r.chance(1, 4) ? 48 : 8);
            auto* rd = new race_round(ncb);
            rd->ncb = ncb;
            rd->nstop = 1 + (int) r.below(r.chance(1, 3) ? 12 : 3);
            rd->slow = r.chance(1, 2);
            rd->in_cb_action = (int) r.below(4);
            for (int c = 0; c < ncb; ++c) rd->cells[c] = std::make_shared<cbcell>();
            rd->actors_left = rd->nstop + ncb;
            expect += rd->nstop + ncb;
            // registrars: construct the callback, maybe destroy it later
            for (int c = 0; c < ncb; ++c)
            {
                bool os = r.below(100) < os_share;
                int yields = (int) r.below(4);
                int fate = (int) r.below(3);    // 0 keep, 1 destroy soon, 2 destroy after a few yields
                launch(os, [rd, c, yields, fate, os] {
                    auto& cell = *rd->cells[c];
                    bool before = !rd->src.stop_requested();
                    cell.registered_before_stop = before && !rd->stop_returned.load();
                    cell.constructed = true;
                    auto obj = std::make_unique<cb_t>(rd->src.get_token(), cb_fn{rd, c});
                    // (if stop was already requested the constructor ran the callback right here)
                    if (cell.runs.load() == 1 && !before) g_ctor_ran++;
                    slot_lock(rd, c);
                    rd->objs[c] = std::move(obj);
                    slot_unlock(rd, c);
                    if (fate != 0)
                    {
                        if (fate == 2 && !os)
                            for (int y = 0; y < yields; ++y) pika::this_thread::yield();
                        bool was_exec = cell.executing.load();
                        destroy_cb(rd, c, false);
                        if (was_exec) g_dtor_waited++;
                    }
                    round_actor_done(rd);
                });
            }
            int const nstop = rd->nstop;    // rd may be deleted by its last actor as soon as all of them are launched
            for (int s = 0; s < nstop; ++s)
            {
                bool os = r.below(100) < os_share;
                launch(os, [rd] {
                    if (rd->src.request_stop())
                    {
                        rd->winners++;
                        rd->stop_returned = true;
                    }
                    if (!rd->src.stop_requested()) vio("stop-not-visible", "stop_requested() false right after request_stop() returned");
                    rd->stoppers_done++;
                    round_actor_done(rd);
                });
            }
        }
        started += n;
        auto wr = wait_quiescent([&] { return g_progress.load() >= expect; }, [&] { return g_progress.load(); }, 40.0);
        if (wr != wait_result::done)
        {
            vio(std::string("hang") + (wr == wait_result::deadlock ? ":deadlock" : ":stalled"),
                sf("request_stop()/~stop_callback did not return (%lu of %lu actors finished); cfg=%s %s", (unsigned long) g_progress.load(), (unsigned long) expect,
                    cfg.describe().c_str(), pool_state().c_str()));
            return false;
        }
    }
    return true;
}

int main(int argc, char** argv)
{
    args_t a(argc, argv);
    report.property = "C14";
    runtime_cfg cfg;
    cfg.scheduler = a.str("scheduler", "local-priority-fifo");
    cfg.threads = (unsigned) a.u64("threads", 4);
    cfg.bind_none = !a.has("bind");
    std::string mode = a.str("mode", "race");
    std::string profile = a.str("perturb", "stop");
    unsigned os_share = (unsigned) a.u64("os", 30);
    install_hooks();
    if (profile == "stop")
    {
        g_perturb.set(pv::stop_before_cas, 0.3, 30);
        g_perturb.set(pv::stop_dequeued, 0.3, 40);
        g_perturb.set(pv::stop_executed, 0.3, 40);
        g_perturb.set(pv::stop_remove_after_unlink, 0.3, 40);
    }
    else if (profile == "light")
        g_perturb.set_all(0.004, 40);
    report.cases = 1;
    bool ok = true;
    if (mode == "model")
    {
        // purely sequential, no runtime needed
        std::uint64_t histories = a.u64("histories", 2000), checks = 0, bad = 0;
        rng r(g_seed);
        for (std::uint64_t h = 0; h < histories; ++h)
        {
            std::uint64_t seed = r.next();
            std::string e = run_model(seed, 2 + (int) r.below(200), checks, nullptr);
            if (!e.empty())
            {
                if (bad++ == 0)
                {
                    std::string trace;
                    std::uint64_t c2 = 0;
                    run_model(seed, 400, c2, &trace);
                    // classify: which query disagreed
                    std::string cls = e.find("stop_possible") != std::string::npos ? "stop_possible" : (e.find("request_stop") != std::string::npos ? "request_stop" : "other");
                    vio("model:" + cls, e + " | history: " + trace);
                }
            }
        }
        report.add("model_histories", histories);
        report.add("model_queries_checked", checks);
        report.add("model_histories_mismatching", bad);
        report.bit("model_history", histories);
        report.signature("model|" + std::to_string(g_seed) + "|1");
        report.sample(sf("{\"mode\":\"model\",\"histories\":%lu,\"queries\":%lu,\"mismatching\":%lu}", (unsigned long) histories, (unsigned long) checks, (unsigned long) bad));
        report.emit();
        return 0;
    }
    {
        runtime rt(cfg);
        std::vector<std::thread> ospool;
        for (int i = 0; i < 4; ++i) ospool.emplace_back(os_loop);
        ok = run_race(cfg, a.u64("rounds", 600), a.u64("batch", 16), os_share);
        auto t = totals();
        report.add("rounds", g_rounds.load());
        report.add("callback_runs", g_cb_runs.load());
        report.add("callbacks_destroyed_unrun", g_cb_destroyed_before.load());
        report.add("callbacks_run_in_constructor", g_ctor_ran.load());
        report.bit("dtor_overlapped_execution", g_dtor_waited.load());
        report.bit("destroy_other_from_callback", g_in_cb_destroy.load());
        report.bit("self_destroy_from_callback", g_self_destroy.load());
        report.bit("register_from_callback", g_late_reg.load());
        report.bit("callback_in_constructor", g_ctor_ran.load());
        report.bit("remove_after_unlink_path", t.hits[pv::stop_remove_after_unlink]);
        report.bit("stop_cas", t.hits[pv::stop_before_cas]);
        std::string sig = cfg.describe() + "|" + mode + "|" + profile + "|";
        for (auto& kv : report.bits) sig += kv.second ? "1" : "0";
        report.signature(sig);
        report.sample(sf("{\"cfg\":\"%s\",\"mode\":\"race\",\"perturb\":\"%s\",\"rounds\":%lu,\"callback_runs\":%lu}", cfg.describe().c_str(), profile.c_str(),
            (unsigned long) g_rounds.load(), (unsigned long) g_cb_runs.load()));
        if (!ok) bail(0);
        {
            std::lock_guard<std::mutex> l(g_osq_m);
            g_osq_stop = true;
        }
        g_osq_cv.notify_all();
        for (auto& th : ospool) th.join();
        pika::wait();
    }
    report.emit();
    return 0;
}
