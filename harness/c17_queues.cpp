// C17: concurrent containers return every element exactly once.  Plain std::threads, no runtime.
// Oracles: per-element take counter (<=1 always, ==1 after drain), nothing invented, pop on a non-empty quiescent
// container succeeds, sequential order per end against reference models.
#include "common/verif.hpp"

#include <pika/concurrency/concurrentqueue.hpp>
#include <pika/concurrency/deque.hpp>
#include <pika/concurrency/detail/contiguous_index_queue.hpp>
#include <pika/schedulers/lockfree_queue_backends.hpp>

#include <deque>

using namespace verif;
namespace pc = pika::concurrency::detail;
namespace pt = pika::threads::detail;

static std::string g_kind;
// operation mix of the concurrent cases: "both" = every thread uses random ends; "abp" = one owner pushes and pops on the
// left, thieves pop on the right; "mpl" = many producers push left only, consumers pop at random ends; "mpl-left" = producers
// push left, consumers pop left only; "spl"/"spl-left" = the same with a single pushing thread
static std::string g_mix = "both";
static void vio(std::string const& what, std::string const& detail) { report.violation("C17:" + what + ":" + g_kind + ":" + g_mix, detail); }

// ------------------------------------------------------------------------------------ uniform adapters
struct ad_deque
{
    pc::deque<std::uint64_t> q;
    bool push(std::uint64_t v, int end) { return end ? q.push_right(v) : q.push_left(v); }
    bool pop(std::uint64_t& v, int end) { return end ? q.pop_right(v) : q.pop_left(v); }
    bool empty() { return q.empty(); }
    static constexpr bool two_ended = true;
};
template <typename B>
struct ad_backend
{
    B q;
    bool push(std::uint64_t v, int end) { return q.push(v, end != 0); }
    bool pop(std::uint64_t& v, int end) { return q.pop(v, end != 0); }    // end==1: steal
    bool empty() { return q.empty(); }
    static constexpr bool two_ended = true;
};
struct ad_cq
{
    pc::ConcurrentQueue<std::uint64_t> q;
    bool push(std::uint64_t v, int) { return q.enqueue(v); }
    bool pop(std::uint64_t& v, int) { return q.try_dequeue(v); }
    bool empty() { return q.size_approx() == 0; }
    static constexpr bool two_ended = false;
};

// ------------------------------------------------------------------------------------ concurrent exactly-once
template <typename Q>
static void concurrent_case(std::uint64_t seed, unsigned producers, unsigned consumers, std::uint64_t per_producer, bool pingpong, std::uint64_t& taken_total)
{
    Q q;
    std::uint64_t const total = std::uint64_t(producers) * per_producer;
    std::vector<std::atomic<std::uint8_t>> taken(total);
    std::atomic<std::uint64_t> consumed{0}, producers_done{0};
    std::atomic<bool> go{false};
    std::vector<std::thread> th;
    auto take = [&](std::uint64_t v, char const* who) {
        if (v >= total)
        {
            vio("invented", sf("%s popped value %lu which was never pushed (range %lu)", who, (unsigned long) v, (unsigned long) total));
            return;
        }
        int n = taken[v].fetch_add(1) + 1;
        if (n > 1) vio("duplicate", sf("element %lu returned %d times (%s)", (unsigned long) v, n, who));
        consumed++;
    };
    for (unsigned p = 0; p < producers; ++p)
        th.emplace_back([&, p] {
            rng r(seed * 31 + p);
            while (!go.load()) _mm_pause();
            for (std::uint64_t i = 0; i < per_producer; ++i)
            {
                std::uint64_t v = p * per_producer + i;
                int pend = (Q::two_ended && g_mix == "both") ? (int) r.below(2) : 0;
                q.push(v, pend);
                if (pingpong && r.chance(1, 2))
                {
                    // owner pops right away: node recycling / ABA stress
                    std::uint64_t x;
                    int oend = (Q::two_ended && g_mix == "both") ? (int) r.below(2) : 0;
                    if (q.pop(x, oend)) take(x, "owner");
                }
                if (r.chance(1, 64)) spin_us(1);
            }
            producers_done++;
        });
    for (unsigned c = 0; c < consumers; ++c)
        th.emplace_back([&, c] {
            rng r(seed * 77 + c);
            while (!go.load()) _mm_pause();
            std::uint64_t idle = 0;
            while (consumed.load() < total)
            {
                std::uint64_t x;
                int cend = !Q::two_ended ? 0 : (g_mix == "abp" ? 1 : ((g_mix == "mpl-left" || g_mix == "spl-left") ? 0 : (int) r.below(2)));
                if (q.pop(x, cend))
                {
                    take(x, "consumer");
                    idle = 0;
                }
                else
                {
                    if (producers_done.load() == producers && ++idle > 2000000) break;    // give up: final drain below decides
                    _mm_pause();
                }
            }
        });
    go = true;
    for (auto& t : th) t.join();
    // quiescent now: drain
    std::uint64_t x;
    std::uint64_t left = total - consumed.load();
    for (std::uint64_t i = 0; i < left + 8; ++i)
    {
        bool expect_nonempty = consumed.load() < total;
        if (q.pop(x, 0) || (Q::two_ended && q.pop(x, 1))) take(x, "drain");
        else
        {
            if (expect_nonempty)
                vio("pop-failed-nonempty", sf("pop on a quiescent container failed although %lu pushed elements were never returned", (unsigned long) (total - consumed.load())));
            break;
        }
    }
    std::uint64_t missing = 0;
    for (std::uint64_t v = 0; v < total; ++v)
        if (taken[v].load() == 0) ++missing;
    if (missing) vio("lost", sf("%lu of %lu pushed elements were never returned after the final drain", (unsigned long) missing, (unsigned long) total));
    if (!q.empty() && missing == 0) vio("empty", "empty() false on a container whose elements were all returned");
    taken_total += consumed.load();
}

// ------------------------------------------------------------------------------------ contiguous index queue
static void ciq_case(std::uint64_t seed, unsigned threads, std::uint32_t first, std::uint32_t last, std::uint64_t& taken_total)
{
    pc::contiguous_index_queue<std::uint32_t> q(first, last);
    std::uint64_t const total = last - first;
    std::vector<std::atomic<std::uint8_t>> taken(total);
    std::atomic<bool> go{false};
    std::atomic<std::uint64_t> consumed{0};
    std::vector<std::thread> th;
    for (unsigned t = 0; t < threads; ++t)
        th.emplace_back([&, t] {
            rng r(seed * 13 + t);
            int mode = t == 0 ? 0 : (int) r.below(3);    // 0 left only (owner), 1 right only (thief), 2 mixed
            while (!go.load()) _mm_pause();
            for (;;)
            {
                bool right = mode == 1 || (mode == 2 && r.chance(1, 2));
                auto v = right ? q.pop_right() : q.pop_left();
                if (!v) break;
                if (*v < first || *v >= last)
                {
                    vio("invented", sf("index %u outside [%u,%u)", *v, first, last));
                    continue;
                }
                int n = taken[*v - first].fetch_add(1) + 1;
                if (n > 1) vio("duplicate", sf("index %u popped %d times from [%u,%u)", *v, n, first, last));
                consumed++;
            }
        });
    go = true;
    for (auto& t : th) t.join();
    std::uint64_t missing = 0;
    for (std::uint64_t v = 0; v < total; ++v)
        if (taken[v].load() == 0) ++missing;
    if (missing) vio("lost", sf("%lu of %lu indices never popped although every popper saw the queue empty", (unsigned long) missing, (unsigned long) total));
    if (!q.empty()) vio("empty", "empty() false after the queue was drained");
    taken_total += consumed.load();
}

// ------------------------------------------------------------------------------------ sequential order
template <typename Q, typename Model>
static void sequential_case(std::uint64_t seed, int ops, Model&& model, std::uint64_t& checked)
{
    Q q;
    std::deque<std::uint64_t> ref;
    rng r(seed);
    std::uint64_t next = 1;
    for (int i = 0; i < ops; ++i)
    {
        int end = Q::two_ended ? (int) r.below(2) : 0;
        if (r.chance(3, 5))
        {
            q.push(next, end);
            model(ref, true, end, next);
            ++next;
        }
        else
        {
            std::uint64_t got = 0, want = 0;
            bool ok = q.pop(got, end);
            bool mok = !ref.empty();
            if (mok) model(ref, false, end, want);
            if (ok != mok) vio("sequential:emptiness", sf("op %d: pop(end=%d) returned %d, model %d", i, end, (int) ok, (int) mok));
            else if (ok && got != want) vio("sequential:order", sf("op %d: pop(end=%d) returned %lu, model %lu", i, end, (unsigned long) got, (unsigned long) want));
            ++checked;
        }
        if (q.empty() != ref.empty()) vio("sequential:empty", sf("op %d: empty()=%d, model %d", i, (int) q.empty(), (int) ref.empty()));
    }
}

int main(int argc, char** argv)
{
    args_t a(argc, argv);
    report.property = "C17";
    g_kind = a.str("kind", "deque");
    std::string mode = a.str("mode", "concurrent");
    g_mix = a.str("mix", "both");
    std::uint64_t cases = a.u64("cases", 40);
    std::uint64_t per = a.u64("per", 20000);
    rng r(g_seed);
    install_hooks();
    if (a.str("perturb", "ciq") == "ciq")
    {
        g_perturb.set(pv::ciq_pop_left, 0.05, 3);
        g_perturb.set(pv::ciq_pop_right, 0.05, 3);
    }
    std::uint64_t taken = 0, checked = 0;
    // models: what a pop at `end` returns for a container filled by pushes at the given ends
    auto m_deque = [](std::deque<std::uint64_t>& ref, bool push, int end, std::uint64_t& v) {
        if (push) end ? ref.push_back(v) : ref.push_front(v);
        else if (end)
        {
            v = ref.back();
            ref.pop_back();
        }
        else
        {
            v = ref.front();
            ref.pop_front();
        }
    };
    auto m_fifo = [](std::deque<std::uint64_t>& ref, bool push, int, std::uint64_t& v) {
        if (push) ref.push_back(v);
        else
        {
            v = ref.front();
            ref.pop_front();
        }
    };
    // lockfree_lifo_backend: push(other_end) -> right, else left; pop always left
    auto m_lifo = [](std::deque<std::uint64_t>& ref, bool push, int end, std::uint64_t& v) {
        if (push) end ? ref.push_back(v) : ref.push_front(v);
        else
        {
            v = ref.front();
            ref.pop_front();
        }
    };
    // abp_fifo: push left always; pop(steal=true) left, pop(false) right
    auto m_abp_fifo = [](std::deque<std::uint64_t>& ref, bool push, int end, std::uint64_t& v) {
        if (push) ref.push_front(v);
        else if (end)
        {
            v = ref.front();
            ref.pop_front();
        }
        else
        {
            v = ref.back();
            ref.pop_back();
        }
    };
    // abp_lifo: push(other_end) right else left; pop(steal=true) right, pop(false) left
    auto m_abp_lifo = [](std::deque<std::uint64_t>& ref, bool push, int end, std::uint64_t& v) {
        if (push) end ? ref.push_back(v) : ref.push_front(v);
        else if (end)
        {
            v = ref.back();
            ref.pop_back();
        }
        else
        {
            v = ref.front();
            ref.pop_front();
        }
    };
    for (std::uint64_t c = 0; c < cases; ++c)
    {
        std::uint64_t seed = r.next();
        if (mode == "sequential")
        {
            int ops = 10 + (int) r.below(3000);
            if (g_kind == "deque") sequential_case<ad_deque>(seed, ops, m_deque, checked);
            else if (g_kind == "fifo") sequential_case<ad_backend<pt::lockfree_fifo_backend<std::uint64_t>>>(seed, ops, m_fifo, checked);
            else if (g_kind == "lifo") sequential_case<ad_backend<pt::lockfree_lifo_backend<std::uint64_t>>>(seed, ops, m_lifo, checked);
            else if (g_kind == "abp_fifo") sequential_case<ad_backend<pt::lockfree_abp_fifo_backend<std::uint64_t>>>(seed, ops, m_abp_fifo, checked);
            else if (g_kind == "abp_lifo") sequential_case<ad_backend<pt::lockfree_abp_lifo_backend<std::uint64_t>>>(seed, ops, m_abp_lifo, checked);
            else if (g_kind == "cq") sequential_case<ad_cq>(seed, ops, m_fifo, checked);
            else if (g_kind == "ciq")
            {
                // ascending from the left, descending from the right
                std::uint32_t first = (std::uint32_t) r.below(1000), n = (std::uint32_t) r.below(5000);
                pc::contiguous_index_queue<std::uint32_t> q(first, first + n);
                std::uint32_t lo = first, hi = first + n;
                for (;;)
                {
                    bool right = r.chance(1, 2);
                    auto v = right ? q.pop_right() : q.pop_left();
                    if (lo == hi)
                    {
                        if (v) vio("sequential:emptiness", "pop on an empty index queue returned a value");
                        break;
                    }
                    std::uint32_t want = right ? --hi : lo++;
                    if (!v) vio("sequential:emptiness", "pop on a non-empty index queue failed");
                    else if (*v != want) vio("sequential:order", sf("pop_%s returned %u, expected %u", right ? "right" : "left", *v, want));
                    ++checked;
                    if (!v) break;
                }
            }
            continue;
        }
        unsigned nthreads = 2 + (unsigned) r.below(15);
        // "spl*" mixes: like "mpl*" but with a single pushing thread
        unsigned producers = (g_mix == "abp" || g_mix.rfind("spl", 0) == 0) ? 1 : 1 + (unsigned) r.below(std::max(1u, nthreads / 2));
        unsigned consumers = std::max(1u, nthreads - producers);
        std::uint64_t n = 100 + r.below(per);
        bool pingpong = r.chance(1, 2);
        if (g_kind == "deque") concurrent_case<ad_deque>(seed, producers, consumers, n, pingpong, taken);
        else if (g_kind == "fifo") concurrent_case<ad_backend<pt::lockfree_fifo_backend<std::uint64_t>>>(seed, producers, consumers, n, pingpong, taken);
        else if (g_kind == "lifo") concurrent_case<ad_backend<pt::lockfree_lifo_backend<std::uint64_t>>>(seed, producers, consumers, n, pingpong, taken);
        else if (g_kind == "abp_fifo") concurrent_case<ad_backend<pt::lockfree_abp_fifo_backend<std::uint64_t>>>(seed, producers, consumers, n, pingpong, taken);
        else if (g_kind == "abp_lifo") concurrent_case<ad_backend<pt::lockfree_abp_lifo_backend<std::uint64_t>>>(seed, producers, consumers, n, pingpong, taken);
        else if (g_kind == "cq") concurrent_case<ad_cq>(seed, producers, consumers, n, pingpong, taken);
        else if (g_kind == "ciq")
        {
            std::uint32_t first = (std::uint32_t) r.below(1u << 20), len = (std::uint32_t) (r.chance(1, 4) ? r.below(8) : r.below(per * 4));
            ciq_case(seed, nthreads, first, first + len, taken);
        }
        report.signature(sf("%s|%s|%s|t%u|p%u|pp%d|1", g_kind.c_str(), mode.c_str(), g_mix.c_str(), nthreads, producers, (int) pingpong));
    }
    report.cases = cases;
    auto t = totals();
    report.add("elements_taken", taken);
    report.add("sequential_pops_checked", checked);
    report.bit("concurrent_elements", taken);
    report.bit("sequential_checks", checked);
    report.bit("ciq_cas_window", t.hits[pv::ciq_pop_left] + t.hits[pv::ciq_pop_right]);
    if (mode == "sequential") report.signature(sf("%s|sequential|1", g_kind.c_str()));
    report.sample(sf("{\"kind\":\"%s\",\"mode\":\"%s\",\"cases\":%lu,\"elements\":%lu,\"sequential_pops\":%lu}", g_kind.c_str(), mode.c_str(), (unsigned long) cases,
        (unsigned long) taken, (unsigned long) checked));
    report.emit();
    return 0;
}
