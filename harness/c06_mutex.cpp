// C06: mutexes give mutual exclusion and always hand the lock on.
// Contended critical sections over pika::mutex / timed_mutex / recursive_mutex / spinlocks with occupancy
// monitor, a multi-word plain record (torn / stale detection; TSan decides happens-before), progress ledger
// with the state-based deadlock watchdog (lost unlock) and an API conformance prologue (misuse reporting).
#include "common/verif.hpp"

#include <pika/concurrency/spinlock.hpp>
#include <pika/mutex.hpp>
#include <pika/synchronization/recursive_mutex.hpp>
#include <pika/thread_support/spinlock.hpp>

#include <mutex>

using namespace verif;
using recursive_mutex_t = pika::detail::recursive_mutex_impl<>;

template <typename M>
struct protected_t
{
    M m;
    std::atomic<int> occupancy{0};
    std::atomic<std::uintptr_t> owner{0};
    // plain memory, deliberately unsynchronised except through the mutex
    std::uint64_t version = 0;
    std::uint64_t rec[4] = {0, 1, 0x5555, 3};
};

static std::atomic<std::uint64_t> g_sections{0}, g_trylock_ok{0}, g_trylock_fail{0}, g_timed_ok{0}, g_timed_fail{0},
    g_migr_in_cs{0}, g_recursions{0};
static std::atomic<std::uint64_t> g_progress{0};
static std::string g_type;

static void vio(std::string const& what, std::string const& detail) { report.violation("C06:" + what + ":" + g_type, detail); }

template <typename P>
static void critical(P& p, rng& r, bool may_yield)
{
    int occ = p.occupancy.fetch_add(1) + 1;
    if (occ != 1) vio("exclusion", sf("%d tasks inside the critical section at once", occ));
    std::uint64_t v = p.version;
    if (p.rec[0] != v || p.rec[1] != v * 3 + 1 || p.rec[2] != (v ^ 0x5555) || p.rec[3] != v + 3)
        vio("visibility", sf("record written in section %lu not visible/consistent in the next one: %lu %lu %lu %lu", (unsigned long) v,
                              (unsigned long) p.rec[0], (unsigned long) p.rec[1], (unsigned long) p.rec[2], (unsigned long) p.rec[3]));
    unsigned w0 = pika::get_worker_thread_num();
    ++v;
    p.rec[0] = v;
    if (may_yield && r.chance(1, 3)) pika::this_thread::yield();
    p.rec[1] = v * 3 + 1;
    if (!may_yield) spin_us((unsigned) r.below(3));
    p.rec[2] = v ^ 0x5555;
    if (may_yield && r.chance(1, 4)) pika::this_thread::yield();
    p.rec[3] = v + 3;
    p.version = v;
    if (pika::get_worker_thread_num() != w0) g_migr_in_cs++;
    occ = p.occupancy.fetch_sub(1);
    if (occ != 1) vio("exclusion", sf("%d tasks inside the critical section at exit", occ));
    g_sections++;
    g_progress++;
}

// ---- suspending mutexes --------------------------------------------------------------------------
template <typename M, bool Timed>
static void contender(protected_t<M>* p, std::uint64_t seed, int iters)
{
    rng r(seed);
    for (int i = 0; i < iters; ++i)
    {
        unsigned op = (unsigned) r.below(Timed ? 10 : 7);
        bool have = false;
        if (op < 4)
        {
            p->m.lock();
            have = true;
        }
        else if (op < 7)
        {
            have = p->m.try_lock();
            (have ? g_trylock_ok : g_trylock_fail)++;
        }
        else if constexpr (Timed)
        {
            // short deadlines keep the run short (a timed waiter sleeps to its deadline before it re-checks)
            auto d = std::chrono::microseconds(200 + r.below(3000));
            have = op == 7 ? p->m.try_lock_for(d) : p->m.try_lock_until(std::chrono::steady_clock::now() + d);
            (have ? g_timed_ok : g_timed_fail)++;
        }
        if (have)
        {
            critical(*p, r, true);
            p->m.unlock();
        }
        else
            g_progress++;
        if (r.chance(1, 3)) pika::this_thread::yield();
    }
}

// ---- recursive mutex -------------------------------------------------------------------------------
static void rec_contender(protected_t<recursive_mutex_t>* p, std::uint64_t seed, int iters)
{
    rng r(seed);
    for (int i = 0; i < iters; ++i)
    {
        int depth = 1 + (int) r.below(4);
        bool have = false;
        if (r.chance(2, 3))
        {
            p->m.lock();
            have = true;
        }
        else
        {
            have = p->m.try_lock();
            (have ? g_trylock_ok : g_trylock_fail)++;
        }
        if (!have)
        {
            g_progress++;
            pika::this_thread::yield();
            continue;
        }
        for (int d = 1; d < depth; ++d)
        {
            if (r.chance(1, 2)) p->m.lock();
            else if (!p->m.try_lock()) vio("recursive-reentry", "try_lock() by the owner of a recursive_mutex failed");
            g_recursions++;
        }
        critical(*p, r, false);
        for (int d = 1; d < depth; ++d)
        {
            p->m.unlock();
            // still owned: nobody else may get in
            if (p->occupancy.load() != 0) vio("exclusion", "foreign task entered while the recursive mutex was still held");
        }
        p->m.unlock();
        if (r.chance(1, 3)) pika::this_thread::yield();
    }
}

// ---- spinlocks (no yields inside the section: documented usage contract) --------------------------------
template <typename M>
static void spin_contender(protected_t<M>* p, std::uint64_t seed, int iters)
{
    rng r(seed);
    for (int i = 0; i < iters; ++i)
    {
        bool have = false;
        if (r.chance(2, 3))
        {
            p->m.lock();
            have = true;
        }
        else
        {
            have = p->m.try_lock();
            (have ? g_trylock_ok : g_trylock_fail)++;
        }
        if (have)
        {
            critical(*p, r, false);
            p->m.unlock();
        }
        else
            g_progress++;
        if (r.chance(1, 4)) pika::this_thread::yield();
    }
}

// ---- API conformance prologue (single task, plus one helper task) ---------------------------------------
template <typename M>
static void conformance_suspending()
{
    M m;
    if (!m.try_lock()) vio("try_lock", "try_lock() on a free mutex returned false");
    if (m.try_lock()) vio("try_lock", "try_lock() on a mutex owned by the caller returned true");
    bool thrown = false;
    try
    {
        m.lock();
    }
    catch (pika::exception const& e)
    {
        thrown = e.get_error() == pika::error::deadlock;
    }
    if (!thrown) vio("misuse", "lock() on an owned mutex was not reported as error::deadlock");
    // a foreign task must not be able to unlock, and its try_lock must fail
    std::atomic<int> foreign{0};
    std::atomic<bool> foreign_done{false};
    pika::thread t([&] {
        if (m.try_lock()) foreign |= 1;
        try
        {
            m.unlock();
            foreign |= 2;
        }
        catch (pika::exception const& e)
        {
            if (e.get_error() != pika::error::lock_error) foreign |= 4;
        }
        foreign_done = true;
    });
    if (t.joinable()) t.join();
    else
        // known finding D12 (shared-priority): the thread exists but cannot be joined; it references this frame
        while (!foreign_done.load()) pika::this_thread::yield();
    if (foreign & 1) vio("try_lock", "try_lock() succeeded on a mutex held by another task");
    if (foreign & 2) vio("misuse", "unlock() by a non-owner was accepted");
    if (foreign & 4) vio("misuse", "unlock() by a non-owner reported the wrong error");
    // the failed misuse must not have corrupted the lock: we still own it
    if (m.try_lock()) vio("misuse", "mutex lost its owner after rejected misuse");
    m.unlock();
    thrown = false;
    try
    {
        m.unlock();
    }
    catch (pika::exception const& e)
    {
        thrown = e.get_error() == pika::error::lock_error;
    }
    if (!thrown) vio("misuse", "unlock() of a free mutex was not reported as error::lock_error");
    if (!m.try_lock()) vio("try_lock", "mutex unusable after rejected misuse");
    else m.unlock();
    report.add("conformance_checks", 9);
}

static void conformance_timed()
{
    pika::timed_mutex m;
    m.lock();
    std::atomic<int> res{-1};
    pika::thread t([&] { res = m.try_lock_for(std::chrono::milliseconds(2)) ? 1 : 0; });
    if (t.joinable()) t.join();
    else
        while (res.load() < 0) pika::this_thread::yield();
    if (res.load() == 1) vio("timed", "try_lock_for() returned true although the mutex stayed owned by another task");
    // we must still be the owner
    bool ok = true;
    try
    {
        m.unlock();
    }
    catch (...)
    {
        ok = false;
    }
    if (!ok) vio("timed", "owner could not unlock after a foreign timed attempt expired");
    if (!m.try_lock_for(std::chrono::milliseconds(1))) vio("timed", "try_lock_for() on a free mutex failed");
    else m.unlock();
    report.add("conformance_checks", 3);
}

template <typename P, typename F>
static bool drive(P& prot, unsigned contenders, int iters, F&& fn, runtime_cfg const& cfg)
{
    std::uint64_t expect = g_progress.load() + std::uint64_t(contenders) * iters;
    for (unsigned c = 0; c < contenders; ++c)
    {
        std::uint64_t seed = g_seed * 977 + c * 131 + 7;
        auto s = ex::thread_pool_scheduler{};
        ex::execute(s, [&prot, seed, iters, fn] { fn(&prot, seed, iters); });
    }
    auto wr = wait_quiescent([&] { return g_progress.load() >= expect; }, [&] { return g_progress.load(); });
    if (wr == wait_result::deadlock)
    {
        vio("lost-unlock:deadlock", sf("all contenders blocked while occupancy=%d (lock free?) after %lu sections; cfg=%s %s", prot.occupancy.load(),
                                        (unsigned long) g_sections.load(), cfg.describe().c_str(), pool_state().c_str()));
        return false;
    }
    if (wr == wait_result::stalled)
    {
        report.inconc("stalled without progress: " + cfg.describe());
        return false;
    }
    if (prot.version != 0 && prot.rec[0] != prot.version) vio("visibility", "final record inconsistent");
    return true;
}

int main(int argc, char** argv)
{
    args_t a(argc, argv);
    report.property = "C06";
    runtime_cfg cfg;
    cfg.scheduler = a.str("scheduler", "local-priority-fifo");
    cfg.threads = (unsigned) a.u64("threads", 4);
    cfg.bind_none = !a.has("bind");
    g_type = a.str("type", "mutex");
    unsigned contenders = (unsigned) a.u64("contenders", 16);
    int iters = (int) a.u64("iters", 400);
    std::string profile = a.str("perturb", "handoff");
    install_hooks();
    if (profile == "handoff")
    {
        g_perturb.set(pv::mtx_lock_wait, 0.1, 40);
        g_perturb.set(pv::mtx_unlock_notify, 0.1, 40);
        g_perturb.set(pv::cv_notify_one, 0.15, 60);
        g_perturb.set(pv::cv_wait_enqueued, 0.2, 80);
        g_perturb.set(pv::cv_wait_timed_enqueued, 0.2, 80);
        g_perturb.set(pv::mtx_timed_wait, 0.2, 80);
        g_perturb.set(pv::yield_before_switch, 0.05, 60);
    }
    else if (profile == "light")
        g_perturb.set_all(0.003, 30);
    report.cases = 1;
    bool ok = true;
    {
        runtime rt(cfg);
        // conformance prologue runs inside one task
        if (g_type == "mutex" || g_type == "timed_mutex")
        {
            std::atomic<bool> done{false};
            ex::execute(ex::thread_pool_scheduler{}, [&] {
                if (g_type == "mutex") conformance_suspending<pika::mutex>();
                else
                {
                    conformance_suspending<pika::timed_mutex>();
                    conformance_timed();
                }
                done = true;
            });
            auto wr = wait_quiescent([&] { return done.load(); }, [&] { return (std::uint64_t) done.load(); });
            if (wr != wait_result::done)
            {
                vio("conformance:deadlock", "API conformance prologue did not finish: " + pool_state());
                ok = false;
            }
        }
        if (ok)
        {
            if (g_type == "mutex")
            {
                static protected_t<pika::mutex> p;
                ok = drive(p, contenders, iters, &contender<pika::mutex, false>, cfg);
            }
            else if (g_type == "timed_mutex")
            {
                static protected_t<pika::timed_mutex> p;
                ok = drive(p, contenders, iters, &contender<pika::timed_mutex, true>, cfg);
            }
            else if (g_type == "recursive_mutex")
            {
                static protected_t<recursive_mutex_t> p;
                ok = drive(p, contenders, iters, &rec_contender, cfg);
            }
            else if (g_type == "ts_spinlock")
            {
                static protected_t<pika::detail::spinlock> p;
                ok = drive(p, contenders, iters, &spin_contender<pika::detail::spinlock>, cfg);
            }
            else
            {
                static protected_t<pika::concurrency::detail::spinlock> p;
                ok = drive(p, contenders, iters, &spin_contender<pika::concurrency::detail::spinlock>, cfg);
            }
        }
        auto t = totals();
        report.add("sections", g_sections.load());
        report.add("try_lock_true", g_trylock_ok.load());
        report.add("try_lock_false", g_trylock_fail.load());
        report.add("timed_true", g_timed_ok.load());
        report.add("timed_false", g_timed_fail.load());
        report.add("recursions", g_recursions.load());
        report.bit("blocked_in_lock", t.hits[pv::mtx_lock_wait]);
        report.bit("timed_wait", t.hits[pv::mtx_timed_wait]);
        report.bit("handoff_notify", t.hits[pv::cv_notify_one]);
        report.bit("owner_migrated_in_section", g_migr_in_cs.load());
        report.bit("resume_found_target_active", t.hits[pv::sts_active_helper]);
        report.bit("try_lock_contended", g_trylock_fail.load());
        report.bit("spin_escalation", t.stored_state[7]);
        std::string sig = cfg.describe() + "|" + g_type + "|" + profile + "|" + std::to_string(contenders) + "|";
        for (auto& kv : report.bits) sig += kv.second ? "1" : "0";
        report.signature(sig);
        report.sample(sf("{\"cfg\":\"%s\",\"type\":\"%s\",\"contenders\":%u,\"iters\":%d,\"perturb\":\"%s\",\"sections\":%lu,\"blocked\":%lu,\"migrated_in_cs\":%lu}",
            cfg.describe().c_str(), g_type.c_str(), contenders, iters, profile.c_str(), (unsigned long) g_sections.load(),
            (unsigned long) t.hits[pv::mtx_lock_wait], (unsigned long) g_migr_in_cs.load()));
        if (!ok) bail(0);
        pika::wait();
    }
    report.emit();
    return 0;
}
