// C13: pika::thread / jthread - join waits for completion and always returns; handle state and misuse reporting;
// jthread destructor requests stop and joins; interruption only at interruption points while enabled, and only the
// target is affected.
#include "common/verif.hpp"

#include <pika/latch.hpp>
#include <optional>
#include <pika/mutex.hpp>
#include <pika/condition_variable.hpp>
#include <pika/stop_token.hpp>
#include <pika/threading/jthread.hpp>

using namespace verif;

static std::string g_mode;
static void vio(std::string const& what, std::string const& detail) { report.violation("C13:" + what, detail); }
static std::atomic<std::uint64_t> g_progress{0};
static std::atomic<std::uint64_t> g_joins{0}, g_join_after_end{0}, g_join_before_end{0}, g_unjoinable{0}, g_misuse{0}, g_grand{0};
static std::string g_sched;
// diagnostics for hang witnesses: what each live join_round is doing (slot per nesting level and driver)
static std::atomic<int> g_stage[64][4];
struct jcell;
static std::atomic<jcell*> g_cell[64][4];

// A value bound to the thread function whose destructor is slow: the callable is destroyed after the exit
// callbacks ran and before the scheduler stores 'terminated' - this widens that gap for joiners.
struct slow_dtor
{
    unsigned us = 0;
    slow_dtor() = default;
    explicit slow_dtor(unsigned u)
      : us(u)
    {
    }
    slow_dtor(slow_dtor&& o) noexcept
      : us(o.us)
    {
        o.us = 0;
    }
    slow_dtor(slow_dtor const& o) = default;
    ~slow_dtor()
    {
        if (us) spin_us(us);
    }
};

// NB: no task here ever yield-spins on the progress of another task.  On the non-stealing (static) policies a
// yielding task can starve, for as long as it keeps yielding, tasks that *other* workers pushed into the same queue
// (the "fifo" queue is per-producer), so such a spin can livelock by scheduling alone.  Handshakes use latches.
struct jcell
{
    std::atomic<bool> body_entered{false}, body_finished{false};
    std::atomic<bool> go{false};
    pika::latch done{1};      // counted down right after body_finished is set
    pika::latch go_l{1};
    void finish()
    {
        body_finished = true;
        done.count_down(1);
    }
};

// ------------------------------------------------------------------------------------------ join rounds
static void join_round(std::uint64_t seed, int depth, int drv = 0)
{
    rng r(seed);
    auto& stage = g_stage[drv & 63][depth & 3];
    stage = 1;
    struct clear_cell
    {
        std::atomic<jcell*>& c;
        ~clear_cell() { c = nullptr; }
    } clear{g_cell[drv & 63][depth & 3]};
    auto c = std::make_shared<jcell>();
    g_cell[drv & 63][depth & 3] = c.get();
    int body_kind = (int) r.below(5);
    int k = (int) r.below(6);
    unsigned dtor_us = r.chance(1, 3) ? (unsigned) r.below(60) : 0;
    slow_dtor sd(dtor_us);
    std::uint64_t cseed = r.next();
    pika::thread t([c, body_kind, k, sd = std::move(sd), cseed, depth, drv] {
        c->body_entered = true;
        switch (body_kind)
        {
        case 0: break;                                                          // immediate return
        case 1:
            for (int i = 0; i < k; ++i) pika::this_thread::yield();
            break;                                                              // yielding
        case 2: spin_us(10 * (unsigned) k); break;                              // (short) long-running
        case 3:                                                                 // blocks until the joiner lets it go
            c->go_l.wait();
            break;
        case 4:                                                                 // spawns and joins grandchildren
            if (depth > 0)
            {
                join_round(cseed, depth - 1, drv);
                g_grand++;
            }
            break;
        }
        c->finish();
    });
    if (!t.joinable())
    {
        // observed on the shared-priority policy: the handle of a freshly created thread is not joinable
        g_unjoinable++;
        vio("join:not-joinable:" + g_sched, "a pika::thread constructed with a function reports joinable()==false; join() would throw invalid_status");
        c->go = true;
        c->go_l.count_down(1);
        t.detach();
        c->done.wait();
        return;
    }
    auto tid = t.get_id();
    if (tid == pika::thread::id()) vio("handle:id", "joinable thread has a default id");
    // timing of the join relative to the end of the body
    int timing = (int) r.below(4);
    if (timing == 1)
        for (int i = 0; i < (int) r.below(4); ++i) pika::this_thread::yield();
    stage = 10 + body_kind * 10 + timing;
    if (timing == 2 && body_kind != 3) c->done.wait();    // join after the function (nearly) returned: hits the exit-callback gap
    if (timing == 3 && body_kind != 3) spin_us((unsigned) r.below(30));
    c->go = true;
    c->go_l.count_down(1);
    bool finished_before = c->body_finished.load();
    bool moved = r.chance(1, 4);
    pika::thread t2;
    if (moved)
    {
        t2 = std::move(t);
        if (t.joinable()) vio("handle:moved-from", "moved-from thread handle still joinable");
    }
    pika::thread& h = moved ? t2 : t;
    stage = 100 + body_kind * 10 + timing + (c->body_finished.load() ? 1000 : 0);
    h.join();
    stage = 2;
    if (!c->body_finished.load()) vio("join:early-return", "join() returned before the thread function returned");
    (finished_before ? g_join_after_end : g_join_before_end)++;
    g_joins++;
    if (h.joinable()) vio("handle:joinable-after-join", "joinable() true after join()");
    if (r.chance(1, 8))
    {
        bool thrown = false;
        try
        {
            h.join();
        }
        catch (pika::exception const& e)
        {
            thrown = e.get_error() == pika::error::invalid_status;
        }
        if (!thrown) vio("misuse:double-join", "second join() was not reported as invalid_status");
        g_misuse++;
    }
}

static void detach_round(std::uint64_t seed)
{
    rng r(seed);
    auto c = std::make_shared<jcell>();
    pika::thread t([c] {
        pika::this_thread::yield();
        c->finish();
    });
    if (!t.joinable())
    {
        t.detach();
        c->done.wait();
        return;
    }
    t.detach();
    if (t.joinable()) vio("handle:joinable-after-detach", "joinable() true after detach()");
    bool thrown = false;
    try
    {
        t.join();
    }
    catch (pika::exception const& e)
    {
        thrown = e.get_error() == pika::error::invalid_status;
    }
    if (!thrown) vio("misuse:join-after-detach", "join() after detach() was not reported as invalid_status");
    g_misuse++;
    c->done.wait();
    // self join
    auto holder = std::make_shared<pika::thread>();
    std::atomic<int> res{0};
    pika::latch handle_ready{1}, res_ready{1};
    *holder = pika::thread([holder, &res, &handle_ready, &res_ready] {
        handle_ready.wait();
        try
        {
            holder->join();
            res = 1;
        }
        catch (pika::exception const& e)
        {
            res = e.get_error() == pika::error::thread_resource_error ? 2 : 3;
        }
        res_ready.count_down(1);
    });
    if (holder->joinable())
    {
        handle_ready.count_down(1);
        res_ready.wait();
        if (res.load() != 2) vio("misuse:self-join", sf("joining oneself was not reported as thread_resource_error (outcome %d)", res.load()));
        g_misuse++;
        if (holder->joinable()) holder->join();
    }
    else
    {
        handle_ready.count_down(1);
        holder->detach();
        res_ready.wait();
    }
}

// ------------------------------------------------------------------------------------------ jthread rounds
static std::atomic<std::uint64_t> g_jthreads{0};
static void jthread_round(std::uint64_t seed)
{
    rng r(seed);
    auto c = std::make_shared<jcell>();
    std::atomic<bool> saw_stop{false};
    int k = (int) r.below(5);
    {
        pika::jthread jt([c, &saw_stop](pika::stop_token st) {
            c->body_entered = true;
            while (!st.stop_requested()) pika::this_thread::yield();
            saw_stop = true;
            pika::this_thread::yield();
            c->finish();
        });
        if (!jt.joinable())
        {
            g_unjoinable++;
            vio("jthread:not-joinable:" + g_sched, "a jthread constructed with a function is not joinable: its destructor neither requests stop nor joins");
            jt.request_stop();
            c->done.wait();
            return;
        }
        for (int i = 0; i < k; ++i) pika::this_thread::yield();
    }    // destructor: request_stop + join
    if (!saw_stop.load()) vio("jthread:no-stop-request", "jthread destructor returned without the body having seen stop_requested()");
    if (!c->body_finished.load()) vio("jthread:dtor-early-return", "jthread destructor returned before the body finished");
    g_jthreads++;
}

// ------------------------------------------------------------------------------------------ interruption rounds
enum loc_t
{
    loc_none = 0,
    loc_disabled_point,    // interruption_point() while disabled: must not deliver
    loc_disabled_wait,     // blocking wait while disabled: must not deliver
    loc_enabled_point,
    loc_enabled_wait,
    loc_compute
};
struct icell
{
    std::atomic<int> loc{loc_none};
    std::atomic<int> interrupted_at{-1};
    std::atomic<bool> finished_normally{false}, entered{false}, exited{false};
    std::atomic<bool> may_interrupt{false};
    pika::mutex m;
    pika::condition_variable cv;
    bool flag = false;
};
struct unwind_probe
{
    icell* c;
    ~unwind_probe()
    {
        // NB: not std::uncaught_exceptions(): that counter lives in the OS thread's exception globals, and a pika task that
        // suspends while it is unwinding (e.g. ~jthread joining) and resumes on another worker leaves both workers' counters
        // off by one.  The interruption is recorded by a catch block in the thread function instead.
        c->exited = true;
    }
};
static std::atomic<std::uint64_t> g_interrupts{0}, g_delivered{0}, g_not_delivered{0}, g_bystanders_ok{0};

static std::atomic<std::uint64_t> g_refused{0}, g_pending_across_disabled{0};

static void interrupt_round(std::uint64_t seed)
{
    rng r(seed);
    auto c = std::make_shared<icell>();
    int variant = (int) r.below(3);
    std::atomic<bool> scope_left{false}, give_up{false};
    pika::latch scope_l{1}, exited_l{1};
    // bystanders that must be unaffected
    std::atomic<int> by_done{0};
    int nby = 1 + (int) r.below(3);
    pika::latch by_l{nby};
    std::vector<pika::thread> by;
    by.reserve(nby);
    for (int i = 0; i < nby; ++i)
        by.emplace_back([&by_done, &by_l] {
            for (int k = 0; k < 5; ++k)
            {
                pika::this_thread::interruption_point();
                pika::this_thread::suspend(pika::threads::detail::thread_schedule_state::pending, "bystander");
            }
            by_done++;
            by_l.count_down(1);
        });
    pika::thread t([c, variant, &scope_left, &give_up, &scope_l, &exited_l] {
        struct at_exit
        {
            pika::latch& l;
            ~at_exit() { l.count_down(1); }
        } ae{exited_l};
        unwind_probe up{c.get()};
        try
        {
        {
            // first statement: no interruption point is passed before interruption is disabled
            pika::this_thread::disable_interruption di;
            c->entered = true;
            // while disabled, neither an explicit point nor a (re)scheduling point may deliver a pending request
            for (int i = 0; i < 12; ++i)
            {
                c->loc = loc_disabled_point;
                pika::this_thread::interruption_point();
                c->loc = loc_disabled_wait;
                pika::this_thread::suspend(pika::threads::detail::thread_schedule_state::pending, "c13 disabled");
            }
            c->loc = loc_compute;
            spin_us(10);
        }
        scope_left = true;
        scope_l.count_down(1);
        if (variant != 2)
        {
            // enabled again: the next interruption point delivers a pending request
            while (!give_up.load())
            {
                c->loc = loc_enabled_point;
                pika::this_thread::interruption_point();
                c->loc = loc_enabled_wait;
                pika::this_thread::suspend(pika::threads::detail::thread_schedule_state::pending, "c13 enabled");
            }
        }
        else
        {
            c->loc = loc_compute;
            spin_us(30);    // never reaches an interruption point again: a pending request is simply not delivered
        }
        c->loc = loc_none;
        c->finished_normally = true;
        }
        catch (pika::thread_interrupted const&)
        {
            c->interrupted_at = c->loc.load();
            throw;    // the thread still ends by the interruption
        }
    });
    if (t.joinable())
    {
        for (int i = 0; i < (int) r.below(4); ++i) pika::this_thread::suspend(pika::threads::detail::thread_schedule_state::pending, "c13 req");
        bool accepted = false;
        bool was_in_scope = c->entered.load() && !scope_left.load();
        try
        {
            t.interrupt();
            accepted = true;
            if (!scope_left.load()) g_pending_across_disabled++;
        }
        catch (pika::exception const& e)
        {
            if (e.get_error() != pika::error::thread_not_interruptable) vio("interrupt:wrong-error", "interrupt() of a thread with disabled interruption reported an unexpected error");
            g_refused++;
        }
        (void) was_in_scope;
        if (!accepted)
        {
            scope_l.wait();
            try
            {
                t.interrupt();
                accepted = true;
            }
            catch (pika::exception const&)
            {
                vio("interrupt:refused-while-enabled", "interrupt() refused although the target had re-enabled interruption");
            }
        }
        if (!accepted) give_up = true;
        g_interrupts++;
        t.join();
        int at = c->interrupted_at.load();
        if (at == loc_disabled_point || at == loc_disabled_wait)
            vio("interrupt:while-disabled", sf("interruption delivered while interruption was disabled (location %d)", at));
        if (at == loc_compute) vio("interrupt:not-at-point", "interruption delivered outside an interruption point");
        if (at >= 0) g_delivered++;
        else g_not_delivered++;
        if (at < 0 && !c->finished_normally.load()) vio("interrupt:lost-thread", "thread neither finished nor was interrupted");
    }
    else
    {
        g_unjoinable++;
        give_up = true;
        t.detach();
        exited_l.wait();
    }
    for (auto& b : by)
        if (b.joinable()) b.join();
        else
            b.detach();
    by_l.wait();
    if (by_done.load() != nby) vio("interrupt:bystander", "a bystander thread did not complete");
    g_bystanders_ok += nby;
}


// One interruption request is one delivery: after thread_interrupted was thrown once, the same thread passes further
// interruption points (clean-up code that yields / locks / joins a child jthread while unwinding) without being
// interrupted again, and the process survives.  (A second-round seeded change stops consuming the request on delivery.)
static std::atomic<std::uint64_t> g_once_rounds{0}, g_once_child_rounds{0}, g_once_skipped{0};
static void interrupt_once_round(std::uint64_t seed)
{
    rng r(seed);
    bool with_child = r.chance(1, 2);
    struct st_t
    {
        pika::latch child_done_l{1};
        std::atomic<int> deliveries{0}, second{0};
        std::atomic<bool> cleanup_done{false}, manual_stop{false}, child_started{false}, child_joinable{false};
        pika::mutex m, wm, cm;
        pika::condition_variable wcv;
        pika::condition_variable_any ccv;
        bool release = false;    // protected by wm; only set when the round is abandoned
    };
    auto st = std::make_shared<st_t>();
    pika::thread t([st, with_child] {
        try
        {
            std::optional<pika::jthread> child;
            if (with_child)
            {
                // a short-lived child: ~jthread during unwinding still calls join(), whose first action is an interruption
                // point.  (A child that blocks on a stop-token wait until ~jthread requests stop was tried first: on
                // shared-priority with 2 workers its ~stop_callback spins with boosted priority in yield_while and starves the
                // normal-priority task that is executing the callback - upstream scheduling behaviour, not judged here.)
                child.emplace([st](pika::stop_token) {
                    st->child_started = true;
                    for (int i = 0; i < 3; ++i) pika::this_thread::yield();
                    st->child_done_l.count_down(1);
                });
                st->child_joinable = child->joinable();
            }
            // block for real: the request is delivered by aborting this wait (the target is suspended, so interrupt() takes
            // the direct path; a target that is merely pending/active can see a stale abort later - upstream behaviour that
            // this round does not judge)
            std::unique_lock<pika::mutex> l(st->wm);
            st->wcv.wait(l, [&] { return st->release; });
            // leaving the scope by exception destroys the child jthread: request_stop + join (join is an interruption point)
        }
        catch (pika::thread_interrupted const&)
        {
            st->deliveries++;
        }
        // clean-up: more interruption points, no new request
        try
        {
            for (int i = 0; i < 5; ++i)
            {
                pika::this_thread::yield();
                pika::this_thread::interruption_point();
                std::unique_lock<pika::mutex> l(st->m);
            }
            st->cleanup_done = true;
        }
        catch (pika::thread_interrupted const&)
        {
            st->second++;
        }
    });
    auto stop_child = [&] {
        {
            std::unique_lock<pika::mutex> l(st->cm);
            st->manual_stop = true;
        }
        st->ccv.notify_all();
    };
    auto abandon = [&] {
        {
            std::unique_lock<pika::mutex> l(st->wm);
            st->release = true;
        }
        st->wcv.notify_all();
        stop_child();
        g_once_skipped++;
    };
    if (!t.joinable())
    {
        // known finding D12 (shared-priority): no handle to interrupt or join
        abandon();
        t.detach();
        return;
    }
    // bounded polling for "suspended" (never an unbounded spin on another task's progress)
    bool suspended = false;
    for (int i = 0; i < 3000 && !suspended; ++i)
    {
        suspended = pika::threads::detail::get_thread_state(t.native_handle()).state() == pika::threads::detail::thread_schedule_state::suspended;
        if (!suspended) pika::this_thread::suspend(pika::threads::detail::thread_schedule_state::pending, "c13 poll");
    }
    if (!suspended)
    {
        abandon();
        t.join();
        return;
    }
    bool requested = true;
    try
    {
        t.interrupt();
    }
    catch (pika::exception const&)
    {
        requested = false;
    }
    if (!requested) abandon();
    t.join();
    stop_child();
    if (with_child && st->child_started.load() && !st->child_joinable.load()) st->child_done_l.wait();
    if (requested)
    {
        if (st->deliveries.load() != 1) vio("interrupt:delivery-count", sf("one interrupt() request of a suspended thread was delivered %d times", st->deliveries.load()));
        if (st->second.load() != 0 || !st->cleanup_done.load())
            vio("interrupt:redelivered", sf("after one delivered interruption the thread was interrupted again at a later interruption point without a new request "
                                            "(second deliveries %d, clean-up finished %d)", st->second.load(), (int) st->cleanup_done.load()));
        g_once_rounds++;
        if (with_child) g_once_child_rounds++;
    }
    g_interrupts++;
}

// D9 probe: interrupt a thread that sits in this_thread::yield() (declared noexcept, but an interruption point)
static void interrupt_in_yield_round()
{
    struct st_t
    {
        std::atomic<bool> stop{false};
        pika::latch started_l{1}, done_l{1};
    };
    auto st = std::make_shared<st_t>();
    pika::thread t([st] {
        struct at_exit
        {
            pika::latch& l;
            ~at_exit() { l.count_down(1); }
        } ae{st->done_l};
        st->started_l.count_down(1);
        while (!st->stop.load()) pika::this_thread::yield();
    });
    if (!t.joinable())
    {
        st->stop = true;
        t.detach();
        st->done_l.wait();
        return;
    }
    st->started_l.wait();
    try
    {
        t.interrupt();
    }
    catch (pika::exception const&)
    {
    }
    for (int i = 0; i < 20; ++i) pika::this_thread::suspend(pika::threads::detail::thread_schedule_state::pending, "c13 req");
    st->stop = true;
    t.join();
    g_interrupts++;
}

// debug only (VERIF_TRACE=1): which thread objects were queued more often than fetched
#include <unordered_map>
static std::mutex g_tr_m;
static std::unordered_map<void const*, std::pair<long, long>> g_tr;
static void trace_handler(std::uint32_t site, void const* obj, std::uint64_t, std::uint64_t) noexcept
{
    if (site != pv::tq_schedule && site != pv::tq_get_next) return;
    std::lock_guard<std::mutex> l(g_tr_m);
    auto& e = g_tr[obj];
    if (site == pv::tq_schedule) e.first++;
    else e.second++;
}

int main(int argc, char** argv)
{
    args_t a(argc, argv);
    report.property = "C13";
    if (std::getenv("VERIF_TRACE")) g_user_handler = &trace_handler;
    runtime_cfg cfg;
    cfg.scheduler = g_sched = a.str("scheduler", "local-priority-fifo");
    cfg.threads = (unsigned) a.u64("threads", 4);
    cfg.bind_none = !a.has("bind");
    g_mode = a.str("mode", "join");
    std::string profile = a.str("perturb", "join");
    std::uint64_t rounds = a.u64("rounds", 2000);
    unsigned drivers = (unsigned) a.u64("drivers", 8);
    install_hooks();
    if (profile == "join")
    {
        g_perturb.set(pv::join_between, 0.3, 80);
        g_perturb.set(pv::exit_callbacks, 0.3, 80);
        g_perturb.set(pv::sched_after_run, 0.05, 80);
        g_perturb.set(pv::yield_before_switch, 0.02, 60);
        g_perturb.set(pv::sts_before_cas, 0.05, 60);
    }
    else if (profile == "light")
        g_perturb.set_all(0.004, 40);
    report.cases = 1;
    bool ok = true;
    {
        runtime rt(cfg);
        std::uint64_t per = rounds / drivers + 1;
        std::uint64_t expect = std::uint64_t(drivers);
        for (unsigned d = 0; d < drivers; ++d)
            ex::execute(ex::thread_pool_scheduler{}, [d, per] {
                rng r(g_seed * 31 + d);
                for (std::uint64_t i = 0; i < per; ++i)
                {
                    if (g_mode == "join")
                    {
                        if (r.chance(1, 20)) detach_round(r.next());
                        else join_round(r.next(), 2, (int) d);
                    }
                    else if (g_mode == "jthread") jthread_round(r.next());
                    else if (g_mode == "interrupt")
                    {
                        if (r.chance(1, 3)) interrupt_once_round(r.next());
                        else interrupt_round(r.next());
                    }
                    else if (g_mode == "interrupt-yield") interrupt_in_yield_round();
                }
                g_progress++;
            });
        auto wr = wait_quiescent([&] { return g_progress.load() >= expect; }, [&] { return g_joins.load() + g_jthreads.load() + g_interrupts.load() + g_progress.load(); }, 40.0);
        if (wr != wait_result::done)
        {
            std::string st;
            if (std::getenv("VERIF_TRACE"))
            {
                std::lock_guard<std::mutex> l(g_tr_m);
                for (auto& kv : g_tr)
                    if (kv.second.first != kv.second.second)
                        std::fprintf(stderr, "TRACE thread %p scheduled %ld fetched %ld state=%d\n", kv.first, kv.second.first, kv.second.second,
                            (int) static_cast<pika::threads::detail::thread_data const*>(kv.first)->get_state().state());
            }
            for (unsigned d = 0; d < drivers && d < 64; ++d)
            {
                st += sf("[d%u:%d/%d/%d", d, g_stage[d][2].load(), g_stage[d][1].load(), g_stage[d][0].load());
                for (int dep = 2; dep >= 0; --dep)
                    if (jcell* jc = g_cell[d][dep].load()) st += sf(" L%d(entered=%d,finished=%d,go=%d)", dep, (int) jc->body_entered.load(), (int) jc->body_finished.load(), (int) jc->go.load());
                st += "]";
            }
            vio(std::string(g_mode == "join" ? "join:hang" : (g_mode == "jthread" ? "jthread:hang" : "interrupt:hang")) + (wr == wait_result::deadlock ? ":deadlock" : ":stalled"),
                sf("%s rounds stuck after %lu joins: a join()/destructor never returned; cfg=%s %s stages(depth2/1/0; 1xx=in join(), +1000 body already finished; xx=10*body_kind+timing)=%s", g_mode.c_str(), (unsigned long) g_joins.load(), cfg.describe().c_str(),
                    pool_state().c_str(), st.c_str()));
            ok = false;
        }
        auto t = totals();
        report.add("joins", g_joins.load());
        report.add("joins_started_after_body_end", g_join_after_end.load());
        report.add("joins_started_before_body_end", g_join_before_end.load());
        report.add("misuse_checks", g_misuse.load());
        report.add("jthreads", g_jthreads.load());
        report.add("interrupts", g_interrupts.load());
        report.add("interrupts_delivered", g_delivered.load());
        report.add("interrupts_not_delivered_no_point", g_not_delivered.load());
        report.add("bystanders_unaffected", g_bystanders_ok.load());
        report.add("interrupts_refused_while_disabled", g_refused.load());
        report.bit("interrupt_refused_while_disabled", g_refused.load());
        report.bit("interrupt_pending_across_disabled_scope", g_pending_across_disabled.load());
        report.add("not_joinable_handles", g_unjoinable.load());
        report.bit("join_suspended", t.sub[pv::join_between][1] ? t.sub[pv::join_between][1] : 0);
        report.bit("join_callback_refused", t.sub[pv::join_between][0]);
        report.bit("join_wakeup_found_joiner_active", t.hits[pv::sts_active_helper]);
        report.bit("grandchildren", g_grand.load());
        report.bit("interrupt_delivered", g_delivered.load());
        report.add("interrupt_once_rounds", g_once_rounds.load());
        report.bit("interrupt_then_more_interruption_points", g_once_rounds.load());
        report.bit("interrupted_thread_owns_jthread", g_once_child_rounds.load());
        report.bit("interrupt_not_delivered", g_not_delivered.load());
        report.bit("jthread", g_jthreads.load());
        std::string sig = cfg.describe() + "|" + g_mode + "|" + profile + "|";
        for (auto& kv : report.bits) sig += kv.second ? "1" : "0";
        report.signature(sig);
        report.sample(sf("{\"cfg\":\"%s\",\"mode\":\"%s\",\"perturb\":\"%s\",\"joins\":%lu,\"jthreads\":%lu,\"interrupts\":%lu}", cfg.describe().c_str(), g_mode.c_str(),
            profile.c_str(), (unsigned long) g_joins.load(), (unsigned long) g_jthreads.load(), (unsigned long) g_interrupts.load()));
        if (!ok) bail(0);
        pika::wait();
    }
    report.emit();
    return 0;
}
