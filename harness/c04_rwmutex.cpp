// C04: async_rw_mutex - exclusive writers, grouped readers, request-order grants, value outlives the wrappers.
// Request sequences are made from ONE thread (documented precondition); each access sender is then started now, later,
// from another worker, from an OS thread, or dropped unstarted; wrappers are held, copied (readers) and released on other
// threads; the mutex object may be destroyed early.  Oracles: online occupancy counters, stamped grant/release log checked
// against the group order, version/payload checks inside every access, exactly-one grant per started request, payload
// destructor ledger.
#include "common/verif.hpp"

#include <pika/execution.hpp>
#include <pika/execution/async_rw_mutex.hpp>

#include <condition_variable>
#include <deque>
#include <mutex>
#include <optional>

using namespace verif;

static void vio(std::string const& what, std::string const& detail) { report.violation("C04:" + what, detail); }

struct payload
{
    static std::atomic<long> live, constructed, destroyed;
    long version = 0;
    long a = 0, b = 0;
    std::uint64_t magic = 0xFEEDC0DE;
    payload()
    {
        ++live;
        ++constructed;
    }
    payload(payload const& o)
      : version(o.version)
      , a(o.a)
      , b(o.b)
    {
        ++live;
        ++constructed;
    }
    ~payload()
    {
        if (magic != 0xFEEDC0DE) vio("value-lifetime:double-destroy", "wrapped value destroyed twice");
        magic = 0xDEAD;
        --live;
        ++destroyed;
    }
    bool consistent() const { return magic == 0xFEEDC0DE && a == version * 3 && b == -version; }
};
std::atomic<long> payload::live{0}, payload::constructed{0}, payload::destroyed{0};

// ---- OS-thread job pool
static std::mutex g_osq_m;
static std::condition_variable g_osq_cv;
static std::deque<std::function<void()>> g_osq;
static bool g_osq_stop = false;
static void os_loop()
{
    for (;;)
    {
        std::function<void()> job;
        {
            std::unique_lock<std::mutex> l(g_osq_m);
            g_osq_cv.wait(l, [] { return g_osq_stop || !g_osq.empty(); });
            if (g_osq.empty()) return;
            job = std::move(g_osq.front());
            g_osq.pop_front();
        }
        job();
        external_end();
    }
}
static void os_submit(std::function<void()> f)
{
    external_begin();
    {
        std::lock_guard<std::mutex> l(g_osq_m);
        g_osq.push_back(std::move(f));
    }
    g_osq_cv.notify_one();
}

static std::atomic<std::uint64_t> g_requests{0}, g_grants{0}, g_sequences{0}, g_dropped{0}, g_os_started{0}, g_late_started{0}, g_copies{0}, g_held_released_elsewhere{0},
    g_early_destroy{0}, g_reader_overlap{0};

struct seq_state
{
    int n = 0;
    std::vector<int> is_w;            // 1 readwrite, 0 read
    std::vector<int> how;             // 0 start now, 1 later (same thread), 2 from a worker task, 3 from an OS thread, 4 dropped unstarted
    std::vector<long> wbefore;        // number of modifying readwrite accesses requested before i
    std::vector<int> group;           // group index: each W its own, maximal R runs share one
    std::vector<std::atomic<long>> gstamp, rstamp;
    std::vector<std::atomic<int>> grants;
    std::atomic<long> seq{0};
    std::atomic<int> writers{0}, readers{0};
    std::atomic<int> pending{0};      // started accesses not yet released
    explicit seq_state(int n_)
      : n(n_)
      , is_w(n_)
      , how(n_)
      , wbefore(n_)
      , group(n_)
      , gstamp(n_)
      , rstamp(n_)
      , grants(n_)
    {
        for (auto& x : gstamp) x = -1;
        for (auto& x : rstamp) x = -1;
    }
};

// body of one access.  `wrapper` is released (destroyed) either right here or later on another thread.
template <bool HasValue, typename Wrapper>
static void access_body(std::shared_ptr<seq_state> st, int i, Wrapper wrapper, std::uint64_t seed)
{
    rng r(seed);
    st->gstamp[i] = st->seq++;
    int gcount = st->grants[i].fetch_add(1) + 1;
    if (gcount != 1) vio("grant-count", sf("access %d was granted %d times", i, gcount));
    g_grants++;
    bool w = st->is_w[i];
    if (w)
    {
        if (st->writers.fetch_add(1) != 0 || st->readers.load() != 0)
            vio("overlap:readwrite", sf("read-write access %d granted while %d writers / %d readers are inside", i, st->writers.load() - 1, st->readers.load()));
    }
    else
    {
        int others = st->readers.fetch_add(1);
        if (others > 0) g_reader_overlap++;
        if (st->writers.load() != 0) vio("overlap:read", sf("read access %d granted while a read-write access is inside", i));
    }
    if constexpr (HasValue)
    {
        if constexpr (!std::is_copy_constructible_v<Wrapper>)
        {
            auto& p = wrapper.get();
            if (p.version != st->wbefore[i] || !p.consistent())
                vio("stale-value:readwrite", sf("read-write access %d sees version %ld (consistent=%d), %ld earlier read-write accesses modified the value", i, p.version,
                                                 (int) p.consistent(), st->wbefore[i]));
            p.version++;
            if (r.chance(1, 2) && pika::threads::detail::get_self_ptr()) pika::this_thread::yield();
            p.a = p.version * 3;
            p.b = -p.version;
        }
        else
        {
            auto const& p = wrapper.get();
            if (p.version != st->wbefore[i] || !p.consistent())
                vio("stale-value:read", sf("read access %d sees version %ld (consistent=%d), expected %ld", i, p.version, (int) p.consistent(), st->wbefore[i]));
        }
    }
    // release: now, or later from another thread; readers may be copied first
    auto release = [st, i, w](auto&& wr) {
        if (w) st->writers.fetch_sub(1);
        else st->readers.fetch_sub(1);
        st->rstamp[i] = st->seq++;    // stamped before the wrapper really goes away
        {
            auto victim = std::move(wr);
            (void) victim;
        }
        st->pending--;
    };
    int fate = (int) r.below(4);
    if (fate == 0 || !pika::threads::detail::get_self_ptr())
    {
        release(std::move(wrapper));
        return;
    }
    if constexpr (std::is_copy_constructible_v<Wrapper>)
    {
        if (fate == 1)
        {
            // copies of a read wrapper released at different times; the access lasts until the last one is gone
            int nc = 1 + (int) r.below(3);
            auto holder = std::make_shared<std::vector<Wrapper>>();
            for (int k = 0; k < nc; ++k) holder->push_back(wrapper);
            g_copies += nc;
            {
                auto first = std::move(wrapper);
                (void) first;
            }
            auto left = std::make_shared<std::atomic<int>>(nc);
            for (int k = 0; k < nc; ++k)
            {
                auto job = [st, i, holder, left, k, release]() mutable {
                    if constexpr (HasValue)
                    {
                        auto const& p = (*holder)[k].get();
                        if (!p.consistent() || p.version != st->wbefore[i]) vio("stale-value:read-copy", sf("copy of read access %d sees version %ld, expected %ld", i, p.version, st->wbefore[i]));
                    }
                    if (left->fetch_sub(1) == 1)
                    {
                        // last copy: this is the release of the access
                        st->readers.fetch_sub(1);
                        st->rstamp[i] = st->seq++;
                        holder->clear();
                        st->pending--;
                    }
                };
                if (k & 1) os_submit(job);
                else ex::execute(ex::thread_pool_scheduler{}, job);
            }
            return;
        }
    }
    // hold the wrapper and release it from another task / OS thread
    auto box = std::make_shared<std::optional<Wrapper>>(std::move(wrapper));
    g_held_released_elsewhere++;
    auto job = [box, release]() mutable {
        release(std::move(**box));
        box->reset();
    };
    if (fate == 2) os_submit(job);
    else ex::execute(ex::thread_pool_scheduler{}, job);
}

template <bool HasValue>
static bool run_sequences(runtime_cfg const& cfg, std::uint64_t count, int maxlen)
{
    using mutex_t = std::conditional_t<HasValue, ex::async_rw_mutex<payload>, ex::async_rw_mutex<void>>;
    rng r(g_seed);
    ex::thread_pool_scheduler sched{};
    for (std::uint64_t rep = 0; rep < count; ++rep)
    {
        int n = 2 + (int) r.below(maxlen);
        auto st = std::make_shared<seq_state>(n);
        std::unique_ptr<mutex_t> m;
        if constexpr (HasValue) m = std::make_unique<mutex_t>(payload{});
        else m = std::make_unique<mutex_t>();
        long w = 0;
        int g = -1;
        bool prev_r = false;
        for (int i = 0; i < n; ++i)
        {
            st->is_w[i] = r.chance(1, 3);
            st->how[i] = (int) r.below(10);
            st->how[i] = st->how[i] < 4 ? 0 : (st->how[i] < 6 ? 1 : (st->how[i] < 8 ? 2 : (st->how[i] < 9 ? 3 : 4)));
            st->wbefore[i] = w;
            if (st->is_w[i] && st->how[i] != 4) ++w;    // a dropped read-write request never runs its body
            if (st->is_w[i] || !prev_r) ++g;
            st->group[i] = g;
            prev_r = !st->is_w[i];
        }
        std::vector<std::optional<ex::unique_any_sender<>>> later(n);
        int started = 0;
        for (int i = 0; i < n; ++i)
        {
            std::uint64_t sd = r.next();
            ex::unique_any_sender<> s;
            bool hop = r.chance(1, 2);    // run the body on a pool worker or inline where the grant happens
            if (st->is_w[i])
            {
                auto body = [st, i, sd](auto wr) { access_body<HasValue>(st, i, std::move(wr), sd); };
                if (hop) s = m->readwrite() | ex::continues_on(sched) | ex::then(body);
                else s = m->readwrite() | ex::then(body);
            }
            else
            {
                auto body = [st, i, sd](auto rd) { access_body<HasValue>(st, i, std::move(rd), sd); };
                if (hop) s = m->read() | ex::continues_on(sched) | ex::then(body);
                else s = m->read() | ex::then(body);
            }
            g_requests++;
            switch (st->how[i])
            {
            case 0:
                st->pending++;
                ++started;
                ex::start_detached(std::move(s));
                break;
            case 4:
                g_dropped++;
                {
                    auto dropped = std::move(s);    // dropped unstarted: must neither stall the chain nor run the body
                    (void) dropped;
                }
                break;
            default:
                st->pending++;
                ++started;
                later[i].emplace(std::move(s));
                break;
            }
        }
        bool early = r.chance(1, 2);
        if (early)
        {
            m.reset();    // the value must survive until the last wrapper is gone
            g_early_destroy++;
        }
        // start the held ones in random order and from different threads
        std::vector<int> idx;
        for (int i = 0; i < n; ++i)
            if (later[i]) idx.push_back(i);
        for (std::size_t k = idx.size(); k > 1; --k) std::swap(idx[k - 1], idx[r.below(k)]);
        for (int i : idx)
        {
            auto sp = std::make_shared<ex::unique_any_sender<>>(std::move(*later[i]));
            later[i].reset();
            auto starter = [sp] { ex::start_detached(std::move(*sp)); };
            if (st->how[i] == 1)
            {
                g_late_started++;
                starter();
            }
            else if (st->how[i] == 2) ex::execute(sched, starter);
            else
            {
                g_os_started++;
                os_submit(starter);
            }
        }
        auto wr = wait_quiescent([&] { return st->pending.load() == 0; }, [&] { return (std::uint64_t) g_grants.load(); }, 40.0);
        if (wr != wait_result::done)
        {
            std::string stuck;
            for (int i = 0; i < n && stuck.size() < 300; ++i)
                if (st->how[i] != 4 && st->grants[i].load() == 0) stuck += sf("%d%c ", i, st->is_w[i] ? 'W' : 'R');
            std::string seqs;
            for (int i = 0; i < n && i < 60; ++i) seqs += sf("%c%d", st->is_w[i] ? 'W' : 'R', st->how[i]);
            vio(std::string("never-granted") + (wr == wait_result::deadlock ? ":deadlock" : ":stalled"),
                sf("started accesses never granted although all earlier ones were released: %s; sequence(kind+how)=%s; cfg=%s %s", stuck.c_str(), seqs.c_str(), cfg.describe().c_str(),
                    pool_state().c_str()));
            return false;
        }
        m.reset();
        // offline check of the stamped log: groups are totally ordered as requested
        for (int i = 0; i < n; ++i)
        {
            if (st->how[i] == 4)
            {
                if (st->grants[i].load() != 0) vio("dropped-ran", sf("the continuation of a dropped, never started request %d ran", i));
                continue;
            }
            if (st->grants[i].load() != 1) vio("grant-count", sf("started access %d granted %d times", i, st->grants[i].load()));
        }
        std::vector<long> gmax_rel(g + 2, -1), gmin_grant(g + 2, std::numeric_limits<long>::max());
        for (int i = 0; i < n; ++i)
        {
            if (st->how[i] == 4 || st->gstamp[i].load() < 0) continue;
            gmax_rel[st->group[i]] = std::max(gmax_rel[st->group[i]], st->rstamp[i].load());
            gmin_grant[st->group[i]] = std::min(gmin_grant[st->group[i]], st->gstamp[i].load());
        }
        long run_max = -1;
        for (int k = 0; k <= g; ++k)
        {
            if (gmin_grant[k] != std::numeric_limits<long>::max() && gmin_grant[k] < run_max)
                vio("order", sf("an access of request group %d was granted (stamp %ld) before every access of the earlier groups was released (stamp %ld)", k, gmin_grant[k], run_max));
            run_max = std::max(run_max, gmax_rel[k]);
        }
        if constexpr (HasValue)
        {
            if (payload::live.load() != 0)
                vio("value-lifetime:leak-or-early", sf("%ld payload instances alive after the mutex and every wrapper are gone (constructed %ld, destroyed %ld)", payload::live.load(),
                                                       payload::constructed.load(), payload::destroyed.load()));
        }
        g_sequences++;
    }
    return true;
}


// =============================================================================== race mode
// Two plain OS threads per round, aligned by a spin barrier with a swept skew: A releases the (only) wrapper of access #1 at
// the same instant at which B starts the sender(s) of the following access(es).  Whatever the order, once both calls
// have returned and the runtime is quiescent every started access must have been granted exactly once and must have
// seen A's write.  (A second-round seeded change - a load-then-store fast path in done() - loses the grant only in
// this window.)
struct spin_barrier2
{
    std::atomic<int> count{0};
    std::atomic<unsigned> gen{0};
    void wait() noexcept
    {
        unsigned g = gen.load(std::memory_order_acquire);
        if (count.fetch_add(1, std::memory_order_acq_rel) + 1 == 2)
        {
            count.store(0, std::memory_order_relaxed);
            gen.fetch_add(1, std::memory_order_release);
        }
        else
            while (gen.load(std::memory_order_acquire) == g) __builtin_ia32_pause();
    }
};
static std::atomic<std::uint64_t> g_race_rounds{0}, g_race_inline_grants{0};

static bool run_race(runtime_cfg const& cfg, std::uint64_t rounds)
{
    using mutex_type = ex::async_rw_mutex<long>;
    using rw_access = typename mutex_type::readwrite_access_type;
    using ro_access = typename mutex_type::read_access_type;
    struct shared_t
    {
        spin_barrier2 bar;
        std::optional<mutex_type> m;
        std::optional<rw_access> held;
        std::vector<ex::unique_any_sender<>> next;    // the following accesses, already requested (in order) by A
        std::atomic<int> granted{0}, stale{0};
        std::atomic<bool> stop{false};
        int nnext = 0;
    };
    auto sh = std::make_shared<shared_t>();
    bool ok = true;
    std::thread B([sh] {
        rng r(g_seed * 77 + 5);
        for (std::uint64_t i = 0;; ++i)
        {
            sh->bar.wait();
            if (sh->stop.load()) break;
            for (unsigned k = (unsigned) r.below(40); k > 0; --k) __builtin_ia32_pause();
            for (auto& s : sh->next) ex::start_detached(std::move(s));
            sh->next.clear();
            sh->bar.wait();
        }
    });
    rng r(g_seed * 79 + 3);
    for (std::uint64_t i = 0; i < rounds && ok; ++i)
    {
        sh->m.emplace(0);
        sh->granted = 0;
        sh->stale = 0;
        auto s1 = sh->m->readwrite();
        int kind = (int) r.below(4);    // 0: one writer, 1: one reader, 2: two readers, 3: reader then writer
        sh->nnext = kind < 2 ? 1 : 2;
        auto add_read = [&] {
            sh->next.emplace_back(sh->m->read() | ex::then([sh](ro_access a) {
                if (a.get() != 42) sh->stale++;
                sh->granted++;
            }));
        };
        auto add_write = [&] {
            sh->next.emplace_back(sh->m->readwrite() | ex::then([sh](rw_access a) {
                if (a.get() != 42) sh->stale++;
                sh->granted++;
            }));
        };
        if (kind == 0) add_write();
        else if (kind == 1) add_read();
        else if (kind == 2)
        {
            add_read();
            add_read();
        }
        else
        {
            add_read();
            add_write();
        }
        sh->held.emplace(pika::this_thread::experimental::sync_wait(std::move(s1)));
        sh->held->get() = 42;
        sh->bar.wait();    // ---- both sides ready
        for (unsigned k = (unsigned) r.below(40); k > 0; --k) __builtin_ia32_pause();
        sh->held.reset();    // release access #1
        sh->bar.wait();      // ---- B has started everything
        if (sh->granted.load() == sh->nnext) g_race_inline_grants++;
        auto wr = wait_quiescent([&] { return sh->granted.load() >= sh->nnext; }, [&] { return (std::uint64_t) sh->granted.load(); }, 30.0, 12);
        if (wr != wait_result::done)
        {
            vio("race:grant-lost", sf("round %lu (following accesses: %s): access #1 was released and %d following access(es) were started at the same instant, %d granted; %s",
                                        (unsigned long) i, kind == 0 ? "write" : (kind == 1 ? "read" : (kind == 2 ? "read,read" : "read,write")), sh->nnext, sh->granted.load(),
                                        wr == wait_result::deadlock ? "runtime quiescent" : "stalled"));
            ok = false;
        }
        else if (sh->granted.load() != sh->nnext)
            vio("race:granted-twice", sf("round %lu: %d grants for %d started accesses", (unsigned long) i, sh->granted.load(), sh->nnext));
        if (sh->stale.load()) vio("race:stale-value", sf("round %lu: a following access did not see the value written under access #1", (unsigned long) i));
        g_race_rounds++;
        if (ok) sh->m.reset();
    }
    sh->stop = true;
    if (ok)
    {
        sh->bar.wait();
        B.join();
    }
    else
        B.detach();
    (void) cfg;
    return ok;
}

int main(int argc, char** argv)
{
    args_t a(argc, argv);
    report.property = "C04";
    runtime_cfg cfg;
    cfg.scheduler = a.str("scheduler", "local-priority-fifo");
    cfg.threads = (unsigned) a.u64("threads", 4);
    cfg.bind_none = !a.has("bind");
    std::string type = a.str("type", "value");
    std::uint64_t count = a.u64("sequences", 300);
    int maxlen = (int) a.u64("maxlen", 60);
    install_hooks();
    if (a.str("perturb", "light") == "light") g_perturb.set_all(0.004, 30);
    report.cases = 1;
    bool ok;
    {
        runtime rt(cfg);
        std::vector<std::thread> ospool;
        for (int i = 0; i < 3; ++i) ospool.emplace_back(os_loop);
        if (a.str("mode", "sequences") == "race") ok = run_race(cfg, a.u64("rounds", 100000));
        else ok = type == "void" ? run_sequences<false>(cfg, count, maxlen) : run_sequences<true>(cfg, count, maxlen);
        report.add("race_rounds", g_race_rounds.load());
        report.bit("race_release_vs_start", g_race_rounds.load());
        report.bit("race_grant_inline", g_race_inline_grants.load());
        report.add("sequences", g_sequences.load());
        report.add("requests", g_requests.load());
        report.add("grants", g_grants.load());
        report.bit("dropped_unstarted", g_dropped.load());
        report.bit("started_from_os_thread", g_os_started.load());
        report.bit("started_later", g_late_started.load());
        report.bit("read_wrapper_copies", g_copies.load());
        report.bit("released_on_other_thread", g_held_released_elsewhere.load());
        report.bit("mutex_destroyed_early", g_early_destroy.load());
        report.bit("readers_overlapped", g_reader_overlap.load());
        std::string sig = cfg.describe() + "|" + type + "|";
        for (auto& kv : report.bits) sig += kv.second ? "1" : "0";
        report.signature(sig);
        report.sample(sf("{\"cfg\":\"%s\",\"type\":\"%s\",\"sequences\":%lu,\"requests\":%lu,\"grants\":%lu}", cfg.describe().c_str(), type.c_str(), (unsigned long) g_sequences.load(),
            (unsigned long) g_requests.load(), (unsigned long) g_grants.load()));
        if (!ok) bail(0);
        {
            std::lock_guard<std::mutex> l(g_osq_m);
            g_osq_stop = true;
        }
        g_osq_cv.notify_all();
        for (auto& th : ospool) th.join();
        pika::wait();
    }
    report.emit();
    return 0;
}
