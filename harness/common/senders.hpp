// Shared pieces for the sender/receiver harnesses (C03, C18): tracked value type with an instance ledger, error type with
// an identity code, instrumented leaf sender (channel x timing chosen at run time), recording receiver that deletes its
// operation state inside the completion call.
#pragma once

#include "verif.hpp"

#include <pika/execution.hpp>
#include <pika/execution_base/any_sender.hpp>
#include <pika/latch.hpp>

#include <exception>
#include <set>
#include <tuple>

namespace vs {
    namespace ex = pika::execution::experimental;

    // ------------------------------------------------------------------ tracked value
    struct tv
    {
        static inline std::atomic<long> live{0}, constructed{0}, destroyed{0}, double_destroy{0}, used_dead{0};
        int v = 0;
        std::uint32_t magic = 0xA11CE;
        tv() noexcept
        {
            ++live;
            ++constructed;
        }
        explicit tv(int x) noexcept
          : v(x)
        {
            ++live;
            ++constructed;
        }
        tv(tv const& o) noexcept
          : v(o.get())
        {
            ++live;
            ++constructed;
        }
        tv(tv&& o) noexcept
          : v(o.get())
        {
            ++live;
            ++constructed;
            o.v = -777777;    // moved-from marker
        }
        tv& operator=(tv const& o) noexcept
        {
            v = o.get();
            return *this;
        }
        tv& operator=(tv&& o) noexcept
        {
            v = o.get();
            o.v = -777777;
            return *this;
        }
        ~tv()
        {
            if (magic != 0xA11CE) ++double_destroy;
            magic = 0xDEAD;
            --live;
            ++destroyed;
        }
        int get() const noexcept
        {
            if (magic != 0xA11CE) ++used_dead;
            return v;
        }
    };

    struct verr : std::exception
    {
        int code;
        explicit verr(int c)
          : code(c)
        {
        }
        char const* what() const noexcept override { return "verr"; }
    };
    inline int err_code(std::exception_ptr const& ep)
    {
        if (!ep) return -2;    // a null exception_ptr on the error channel (e.g. the error object was destroyed before delivery)
        try
        {
            std::rethrow_exception(ep);
        }
        catch (verr const& e)
        {
            return e.code;
        }
        catch (...)
        {
            return -1;
        }
    }

    enum chan
    {
        c_value = 0,
        c_error = 1,
        c_stopped = 2
    };
    enum timing
    {
        t_inline = 0,    // completes inside start()
        t_pool = 1,      // later, on a pool worker
        t_thread = 2     // later, on a plain std::thread
    };
    using outcome = std::pair<int, int>;    // (channel, value or error code; 0 for stopped)
    inline std::string show(outcome o)
    {
        if (o.first < 0) return "not-completed";
        return verif::sf("%s(%d)", o.first == c_value ? "value" : (o.first == c_error ? "error" : "stopped"), o.second);
    }

    inline std::atomic<std::uint64_t> g_leaf_started{0}, g_leaf_inline{0}, g_leaf_pool{0}, g_leaf_thread{0};

    // ------------------------------------------------------------------ instrumented leaf sender
    struct leaf_sender
    {
        PIKA_STDEXEC_SENDER_CONCEPT
        int v = 0;
        int c = c_value;
        int t = t_inline;

        template <template <typename...> class Tuple, template <typename...> class Variant>
        using value_types = Variant<Tuple<tv>>;
        template <template <typename...> class Variant>
        using error_types = Variant<std::exception_ptr>;
        static constexpr bool sends_done = true;
        using completion_signatures = ex::completion_signatures<ex::set_value_t(tv), ex::set_error_t(std::exception_ptr), ex::set_stopped_t()>;

        template <typename R>
        struct op
        {
            std::decay_t<R> r;
            int v, c, t;
            op(op&&) = delete;
            template <typename R_>
            op(R_&& r_, int v_, int c_, int t_)
              : r(std::forward<R_>(r_))
              , v(v_)
              , c(c_)
              , t(t_)
            {
            }
            void fire() noexcept
            {
                // copy what is needed: the receiver may destroy this operation state inside the completion call
                int vv = v, cc = c;
                auto rr = std::move(r);
                switch (cc)
                {
                case c_value: ex::set_value(std::move(rr), tv(vv)); break;
                case c_error: ex::set_error(std::move(rr), std::make_exception_ptr(verr(vv))); break;
                default: ex::set_stopped(std::move(rr)); break;
                }
            }
            void start() & noexcept
            {
                ++g_leaf_started;
                switch (t)
                {
                case t_inline:
                    ++g_leaf_inline;
                    fire();
                    break;
                case t_pool:
                    ++g_leaf_pool;
                    ex::execute(ex::thread_pool_scheduler{}, [this] { fire(); });
                    break;
                default:
                    ++g_leaf_thread;
                    verif::external_begin();
                    std::thread([this] {
                        fire();
                        verif::external_end();
                    }).detach();
                    break;
                }
            }
        };
        template <typename R>
        auto connect(R&& r) &&
        {
            return op<R>(std::forward<R>(r), v, c, t);
        }
        template <typename R>
        auto connect(R&& r) const&
        {
            return op<R>(std::forward<R>(r), v, c, t);
        }
    };

    // ------------------------------------------------------------------ recording terminal receiver
    struct record
    {
        std::atomic<int> signals{0};
        std::atomic<int> channel{-1};
        std::atomic<int> value{0};
        std::atomic<bool> done{false};
        std::atomic<bool> signalled_after_destroy{false};
        // the operation state connected to the recording receiver; deleted inside the completion call
        void* op = nullptr;
        void (*del)(void*) = nullptr;
        std::atomic<bool> op_deleted{false};
    };

    inline std::atomic<std::uint64_t> g_terminal_signals{0};

    template <typename T>
    struct rec_receiver
    {
        PIKA_STDEXEC_RECEIVER_CONCEPT
        std::shared_ptr<record> rec;

        void finish(int ch, int val) noexcept
        {
            auto r = rec;    // keep the record alive: deleting the operation state destroys *this
            if (r->op_deleted.load()) r->signalled_after_destroy = true;
            int n = r->signals.fetch_add(1) + 1;
            ++g_terminal_signals;
            if (n == 1)
            {
                r->channel = ch;
                r->value = val;
                // legal and what start_detached does: free the operation state from inside the completion signal
                if (r->op && r->del)
                {
                    r->op_deleted = true;
                    r->del(r->op);
                }
                r->done = true;
            }
        }
        void set_value(T x) && noexcept
        {
            int val = x.get();
            finish(c_value, val);
        }
        void set_error(std::exception_ptr ep) && noexcept { finish(c_error, err_code(ep)); }
        void set_stopped() && noexcept { finish(c_stopped, 0); }
        constexpr ex::empty_env get_env() const& noexcept { return {}; }
    };

    // connect + start with the recording receiver; the operation state lives on the heap and is freed by the receiver
    template <typename T, typename Sender>
    std::shared_ptr<record> run_recorded(Sender&& s)
    {
        auto rec = std::make_shared<record>();
        using op_t = decltype(ex::connect(std::forward<Sender>(s), rec_receiver<T>{rec}));
        auto* op = new op_t(ex::connect(std::forward<Sender>(s), rec_receiver<T>{rec}));
        rec->op = op;
        rec->del = [](void* p) { delete static_cast<op_t*>(p); };
        ex::start(*op);
        return rec;
    }
}    // namespace vs
