// Common machinery for the runtime-monitoring harnesses: rng, hook handler (counting, seeded
// OS-level perturbation, optional monitors), violation ledger, JSON result line, runtime fixture and
// the state-based quiescence watchdog.  Header-only; every harness is one TU.
#pragma once

#include <pika/config/verif_hooks.hpp>
#include <pika/execution.hpp>
#include <pika/init.hpp>
#include <pika/modules/resource_partitioner.hpp>
#include <pika/runtime.hpp>
#include <pika/thread.hpp>

#include <atomic>
#include <chrono>
#include <cstdarg>
#include <cstdint>
#include <cstdio>
#include <cstdlib>
#include <cstring>
#include <functional>
#include <memory>
#include <map>
#include <mutex>
#include <sstream>
#include <string>
#include <thread>
#include <vector>

#include <immintrin.h>
#include <sched.h>
#include <time.h>
#include <unistd.h>

#if !defined(PIKA_VERIF_HOOKS)
# error "harnesses must be compiled with -DPIKA_VERIF_HOOKS (same as libpika)"
#endif

namespace verif {
    namespace ex = pika::execution::experimental;
    namespace tt = pika::this_thread::experimental;
    namespace pv = pika::verif;

    // ---------------------------------------------------------------- rng
    struct rng
    {
        std::uint64_t s;
        explicit rng(std::uint64_t seed = 1)
          : s(seed * 0x9E3779B97F4A7C15ull + 0x632BE59BD9B4E019ull)
        {
            if (!s) s = 1;
            for (int i = 0; i < 4; ++i) next();
        }
        std::uint64_t next()
        {
            s ^= s << 13;
            s ^= s >> 7;
            s ^= s << 17;
            return s * 0x2545F4914F6CDD1Dull;
        }
        std::uint64_t operator()() { return next(); }
        // uniform in [0, n)
        std::uint64_t below(std::uint64_t n) { return n ? (next() >> 11) % n : 0; }
        std::uint64_t range(std::uint64_t lo, std::uint64_t hi) { return lo + below(hi - lo + 1); }
        bool chance(unsigned num, unsigned den) { return below(den) < num; }
    };

    inline std::uint64_t g_seed = 1;
    inline rng& trng()
    {
        static std::atomic<std::uint64_t> ctr{0};
        thread_local rng r(g_seed * 1000003ull + ctr.fetch_add(1) * 7919ull + 17);
        return r;
    }

    inline std::uint64_t now_ns()
    {
        timespec ts;
        clock_gettime(CLOCK_MONOTONIC, &ts);
        return std::uint64_t(ts.tv_sec) * 1000000000ull + ts.tv_nsec;
    }
    inline void spin_us(unsigned us)
    {
        auto t0 = now_ns();
        while (now_ns() - t0 < std::uint64_t(us) * 1000) _mm_pause();
    }

    // ---------------------------------------------------------------- site names
    inline char const* site_name(unsigned s)
    {
        static char const* const n[] = {"none", "sched_before_run", "sched_after_run",
            "sched_cas_lost", "sched_store_lost", "sched_after_store", "sched_resched_active",
            "sched_steal", "tq_schedule", "tq_get_next", "tq_add_new", "tq_stage", "tq_create_new",
            "tq_reuse", "tq_recycle", "tq_destroy", "yield_before_switch", "sts_before_cas",
            "sts_before_schedule", "sts_active_helper", "sas_entry", "sas_abort",
            "cv_wait_enqueued", "cv_wait_timed_enqueued", "cv_notify_one", "cv_notify_all",
            "mtx_lock_wait", "mtx_timed_wait", "mtx_unlock_notify", "sem_wait", "sem_wait_timed",
            "sem_signal_mid", "latch_zero_before_lock", "latch_before_notify",
            "barrier_between_cas", "barrier_after_completion", "once_after_status_done",
            "once_after_status_reset", "ss_done", "ss_add", "when_all_finish", "ciq_pop_left",
            "ciq_pop_right", "join_between", "exit_callbacks", "stop_before_cas", "stop_dequeued",
            "stop_executed", "stop_remove_after_unlink", "gac_inc", "gac_dec", "tm_wait_pred",
            "pu_suspend", "pu_resume", "select_active_pu", "cva_before_lock", "cva_after_user_unlock", "mpi_request_queued", "mpi_ready_enqueued", "mpi_ready_dequeued", "mpi_callback_done"};
        static_assert(sizeof(n) / sizeof(n[0]) == pv::site_count, "site table out of date");
        return s < pv::site_count ? n[s] : "?";
    }

    // ---------------------------------------------------------------- hook handler
    // owner-thread-only writers, relaxed atomics so that the final cross-thread read is race-free
    using ctr_t = std::atomic<std::uint64_t>;
    inline void bump(ctr_t& c) noexcept { c.store(c.load(std::memory_order_relaxed) + 1, std::memory_order_relaxed); }
    struct alignas(64) thread_counters
    {
        ctr_t hits[pv::site_count] = {};
        ctr_t sub[pv::site_count][4] = {};    // indexed by (b & 3): path variants
        ctr_t steals{0}, staged_steals{0}, delays{0};
        ctr_t stored_state[8] = {};    // state stored by the scheduling loop after a phase (sched_after_store)
    };
    inline std::mutex g_tc_mtx;
    // intentionally never destroyed (stays reachable for LeakSanitizer, usable during static destruction)
    inline std::vector<thread_counters*>& g_tcs_ref()
    {
        static auto* v = new std::vector<thread_counters*>;
        return *v;
    }
    inline thread_counters& tc()
    {
        thread_local thread_counters* p = nullptr;
        if (!p)
        {
            p = new thread_counters;
            std::lock_guard<std::mutex> l(g_tc_mtx);
            g_tcs_ref().push_back(p);
        }
        return *p;
    }

    struct perturb_cfg
    {
        // probability in 1/65536, max delay in microseconds
        std::atomic<std::uint32_t> prob[pv::site_count];
        std::atomic<std::uint32_t> max_us[pv::site_count];
        std::atomic<int> in_delay{0};
        void clear()
        {
            for (auto& p : prob) p = 0;
            for (auto& m : max_us) m = 0;
        }
        void set(unsigned site, double probability, unsigned maxus)
        {
            prob[site] = (std::uint32_t) (probability * 65536.0);
            max_us[site] = maxus;
        }
        void set_all(double probability, unsigned maxus)
        {
            for (unsigned s = 1; s < pv::site_count; ++s) set(s, probability, maxus);
        }
    };
    inline perturb_cfg g_perturb;

    // optional extra monitors, installed by individual harnesses
    using user_handler_t = void (*)(std::uint32_t, void const*, std::uint64_t, std::uint64_t) noexcept;
    inline std::atomic<user_handler_t> g_user_handler{nullptr};

    // ------------------------------------------------ C01 single-runner monitor (optional)
    constexpr std::size_t SR_TAB = 1u << 16;
    inline std::atomic<std::uintptr_t> g_sr_tab[SR_TAB];
    inline std::atomic<bool> g_sr_enabled{false};
    inline std::atomic<std::uint64_t> g_sr_violations{0};
    inline std::atomic<std::uint64_t> g_sr_checked{0};
    inline std::atomic<std::uintptr_t> g_sr_witness{0};

    inline void single_runner(std::uint32_t site, void const* obj) noexcept
    {
        std::uintptr_t p = (std::uintptr_t) obj;
        std::size_t h = (p >> 6) * 0x9E3779B1u % SR_TAB;
        if (site == pv::sched_before_run)
        {
            g_sr_checked.fetch_add(1, std::memory_order_relaxed);
            for (std::size_t i = 0; i < SR_TAB; ++i)
            {
                auto& s = g_sr_tab[(h + i) % SR_TAB];
                std::uintptr_t cur = s.load(std::memory_order_acquire);
                if (cur == p)
                {
                    g_sr_violations++;
                    g_sr_witness = p;
                    return;
                }
                if (cur == 0)
                {
                    std::uintptr_t e = 0;
                    if (s.compare_exchange_strong(e, p)) return;
                    if (e == p)
                    {
                        g_sr_violations++;
                        g_sr_witness = p;
                        return;
                    }
                }
            }
        }
        else
        {
            for (std::size_t i = 0; i < SR_TAB; ++i)
            {
                auto& s = g_sr_tab[(h + i) % SR_TAB];
                if (s.load(std::memory_order_acquire) == p)
                {
                    s.store(0, std::memory_order_release);
                    return;
                }
            }
        }
    }

    inline void hook_handler(
        std::uint32_t site, void const* obj, std::uint64_t a, std::uint64_t b) noexcept
    {
        if (site >= pv::site_count) return;
        auto& c = tc();
        bump(c.hits[site]);
        bump(c.sub[site][(site == pv::join_between ? a : b) & 3]);
        if (site == pv::sched_steal || (site == pv::tq_get_next && a == 1)) bump(c.steals);
        if (site == pv::tq_add_new && a == 1) bump(c.staged_steals);
        if (site == pv::sched_after_store) bump(c.stored_state[b & 7]);
        if (g_sr_enabled.load(std::memory_order_relaxed) &&
            (site == pv::sched_before_run || site == pv::sched_after_run))
            single_runner(site, obj);
        if (auto uh = g_user_handler.load(std::memory_order_relaxed)) uh(site, obj, a, b);
        std::uint32_t pr = g_perturb.prob[site].load(std::memory_order_relaxed);
        if (pr)
        {
            rng& r = trng();
            if ((r.next() & 0xffff) < pr)
            {
                std::uint32_t mx = g_perturb.max_us[site].load(std::memory_order_relaxed);
                bump(c.delays);
                g_perturb.in_delay.fetch_add(1, std::memory_order_relaxed);
                unsigned kind = r.below(8);
                if (kind == 0) sched_yield();
                else if (kind == 1 && mx >= 20)
                {
                    timespec ts{0, long(r.range(1, mx) * 1000)};
                    nanosleep(&ts, nullptr);
                }
                else
                    spin_us((unsigned) r.range(1, mx ? mx : 1));
                g_perturb.in_delay.fetch_sub(1, std::memory_order_relaxed);
            }
        }
    }

    inline void install_hooks() { pv::handler.store(&hook_handler); }

    struct counter_totals
    {
        std::uint64_t hits[pv::site_count] = {};
        std::uint64_t sub[pv::site_count][4] = {};
        std::uint64_t steals = 0, staged_steals = 0, delays = 0;
        std::uint64_t stored_state[8] = {};
    };
    inline counter_totals totals()
    {
        counter_totals t;
        std::lock_guard<std::mutex> l(g_tc_mtx);
        for (auto* p : g_tcs_ref())
        {
            for (unsigned s = 0; s < pv::site_count; ++s)
            {
                t.hits[s] += p->hits[s];
                for (int k = 0; k < 4; ++k) t.sub[s][k] += p->sub[s][k];
            }
            for (int k = 0; k < 8; ++k) t.stored_state[k] += p->stored_state[k];
            t.steals += p->steals;
            t.staged_steals += p->staged_steals;
            t.delays += p->delays;
        }
        return t;
    }

    // ---------------------------------------------------------------- json helpers
    inline std::string jesc(std::string const& s)
    {
        std::string o;
        for (unsigned char c : s)
        {
            if (c == '"' || c == '\\')
            {
                o += '\\';
                o += (char) c;
            }
            else if (c == '\n') o += "\\n";
            else if (c < 0x20) o += ' ';
            else o += (char) c;
        }
        return o;
    }
    inline std::string sf(char const* f, ...)
    {
        char buf[1024];
        va_list ap;
        va_start(ap, f);
        vsnprintf(buf, sizeof buf, f, ap);
        va_end(ap);
        return buf;
    }

    // ---------------------------------------------------------------- report
    struct report_t
    {
        std::mutex m;
        std::string property;
        std::uint64_t cases = 0;
        std::map<std::string, std::uint64_t> counters;    // events observed by the oracles
        std::map<std::string, std::uint64_t> bits;        // path bits (coverage)
        std::map<std::string, std::pair<std::uint64_t, std::string>> violations;    // key -> (count, first detail)
        std::vector<std::string> samples;    // raw JSON values
        std::vector<std::string> inconclusive;
        std::vector<std::string> signatures;    // distinct (configuration, path-bit signature) strings

        void add(std::string const& k, std::uint64_t n = 1)
        {
            std::lock_guard<std::mutex> l(m);
            counters[k] += n;
        }
        void bit(std::string const& k, std::uint64_t n = 1)
        {
            std::lock_guard<std::mutex> l(m);
            bits[k] += n;
        }
        void violation(std::string const& key, std::string const& detail)
        {
            std::lock_guard<std::mutex> l(m);
            auto& v = violations[key];
            if (v.first++ == 0)
            {
                v.second = detail;
                // also emit at once: the process may not live long enough to print the result line
                std::string line = "@@VIOLATION {\"key\":\"" + jesc(key) + "\",\"detail\":\"" + jesc(detail) + "\"}\n";
                std::fputs(line.c_str(), stdout);
                std::fflush(stdout);
            }
        }
        void sample(std::string const& json_value)
        {
            std::lock_guard<std::mutex> l(m);
            if (samples.size() < 6) samples.push_back(json_value);
        }
        void inconc(std::string const& why)
        {
            std::lock_guard<std::mutex> l(m);
            inconclusive.push_back(why);
        }
        void signature(std::string const& s)
        {
            std::lock_guard<std::mutex> l(m);
            signatures.push_back(s);
        }
        bool clean()
        {
            std::lock_guard<std::mutex> l(m);
            return violations.empty();
        }

        // print the single machine-readable result line
        void emit()
        {
            auto t = totals();
            std::lock_guard<std::mutex> l(m);
            std::ostringstream o;
            o << "@@RESULT {\"property\":\"" << property << "\",\"cases\":" << cases << ",\"counters\":{";
            bool first = true;
            for (auto& kv : counters)
            {
                o << (first ? "" : ",") << '"' << jesc(kv.first) << "\":" << kv.second;
                first = false;
            }
            o << "},\"bits\":{";
            first = true;
            for (auto& kv : bits)
            {
                o << (first ? "" : ",") << '"' << jesc(kv.first) << "\":" << kv.second;
                first = false;
            }
            o << "},\"hooks\":{";
            first = true;
            for (unsigned s = 1; s < pv::site_count; ++s)
                if (t.hits[s])
                {
                    o << (first ? "" : ",") << '"' << site_name(s) << "\":" << t.hits[s];
                    first = false;
                }
            o << (first ? "" : ",") << "\"_steals\":" << t.steals << ",\"_staged_steals\":" << t.staged_steals
              << ",\"_delays\":" << t.delays;
            for (unsigned s : {(unsigned) pv::ss_add})
                for (int k = 0; k < 4; ++k)
                    if (t.sub[s][k]) o << ",\"" << site_name(s) << "." << k << "\":" << t.sub[s][k];
            o << "},\"violations\":[";
            first = true;
            for (auto& kv : violations)
            {
                o << (first ? "" : ",") << "{\"key\":\"" << jesc(kv.first) << "\",\"count\":" << kv.second.first
                  << ",\"detail\":\"" << jesc(kv.second.second) << "\"}";
                first = false;
            }
            o << "],\"inconclusive\":[";
            first = true;
            for (auto& s : inconclusive)
            {
                o << (first ? "" : ",") << '"' << jesc(s) << '"';
                first = false;
            }
            o << "],\"signatures\":[";
            first = true;
            for (auto& s : signatures)
            {
                o << (first ? "" : ",") << '"' << jesc(s) << '"';
                first = false;
            }
            o << "],\"samples\":[";
            first = true;
            for (auto& s : samples)
            {
                o << (first ? "" : ",") << s;
                first = false;
            }
            o << "]}";
            std::puts(o.str().c_str());
            std::fflush(stdout);
        }
    };
    inline report_t report;

    // emit and leave without running destructors (used when the runtime is wedged)
    [[noreturn]] inline void bail(int code = 0)
    {
        report.emit();
        std::fflush(stdout);
        std::_Exit(code);
    }

    // ---------------------------------------------------------------- in-process progress watchdog
    // For workloads that can end in an endless loop inside the code under test (corrupted containers, a wait that never
    // returns): when `progress()` has not changed for `seconds`, the witness is reported under `key` and the process leaves.
    // A plain case time-out would only say "no result"; this says where it stopped.  Stop it with `alive = false`.
    inline void start_progress_watchdog(std::function<std::uint64_t()> progress, int seconds, std::string key, std::function<std::string()> what,
        std::shared_ptr<std::atomic<bool>> alive)
    {
        std::thread([=] {
            std::uint64_t last = progress();
            int same = 0;
            while (alive->load())
            {
                std::this_thread::sleep_for(std::chrono::seconds(1));
                std::uint64_t cur = progress();
                if (cur != last)
                {
                    last = cur;
                    same = 0;
                    continue;
                }
                if (++same < seconds) continue;
                if (!alive->load()) return;
                report.violation(key, sf("no progress for %d s: %s", seconds, what().c_str()));
                bail(0);
            }
        }).detach();
    }

    // ---------------------------------------------------------------- argument parsing
    struct args_t
    {
        std::map<std::string, std::string> kv;
        args_t(int argc, char** argv)
        {
            for (int i = 1; i < argc; ++i)
            {
                std::string a = argv[i];
                if (a.rfind("--", 0) != 0) continue;
                auto eq = a.find('=');
                if (eq == std::string::npos) kv[a.substr(2)] = "1";
                else kv[a.substr(2, eq - 2)] = a.substr(eq + 1);
            }
            g_seed = u64("seed", 1);
        }
        std::string str(std::string const& k, std::string const& d = "") const
        {
            auto it = kv.find(k);
            return it == kv.end() ? d : it->second;
        }
        std::uint64_t u64(std::string const& k, std::uint64_t d) const
        {
            auto it = kv.find(k);
            return it == kv.end() ? d : std::strtoull(it->second.c_str(), nullptr, 0);
        }
        bool has(std::string const& k) const { return kv.count(k) != 0; }
    };

    // ---------------------------------------------------------------- runtime fixture
    inline char const* const policy_names[8] = {"local", "local-priority-fifo", "local-priority-lifo",
        "static", "static-priority", "abp-priority-fifo", "abp-priority-lifo", "shared-priority"};

    struct runtime_cfg
    {
        std::string scheduler = "local-priority-fifo";
        unsigned threads = 4;
        bool bind_none = true;
        std::vector<std::string> extra;    // further --pika: options
        std::function<void(pika::resource::partitioner&, pika::program_options::variables_map const&)> rp;
        std::string describe() const
        {
            std::string s = scheduler + "/" + std::to_string(threads);
            for (auto& e : extra) s += " " + e;
            return s;
        }
    };

    struct runtime
    {
        bool started = false;
        explicit runtime(runtime_cfg const& c)
        {
            std::vector<std::string> a{"verif", "--pika:threads=" + std::to_string(c.threads),
                "--pika:scheduler=" + c.scheduler};
            if (c.bind_none) a.push_back("--pika:bind=none");
            for (auto& e : c.extra) a.push_back(e);
            std::vector<char const*> av;
            for (auto& s : a) av.push_back(s.c_str());
            pika::init_params p;
            if (c.rp) p.rp_callback = c.rp;
            pika::start(nullptr, (int) av.size(), av.data(), p);
            started = true;
        }
        void stop()
        {
            if (!started) return;
            started = false;
            pika::finalize();
            pika::stop();
        }
        ~runtime() { stop(); }
    };

    // ---------------------------------------------------------------- quiescence watchdog
    // Wake-up sources outside the runtime (plain OS threads that will still call into pika) must be counted as
    // activity: an OS thread can be descheduled for longer than the watchdog's observation window.
    inline std::atomic<std::int64_t> g_external_busy{0};
    inline void external_begin() { g_external_busy.fetch_add(1); }
    inline void external_end() { g_external_busy.fetch_sub(1); }

    enum class wait_result
    {
        done,
        deadlock,    // quiescent (nothing pending/active/staged anywhere) but predicate unsatisfied
        stalled      // busy, no progress for the wall-clock cap: inconclusive
    };

    // `done()` must be cheap and thread-safe; `progress()` returns a monotone counter.
    template <typename Done, typename Progress>
    wait_result wait_quiescent(Done&& done, Progress&& progress, double stall_seconds = 60.0,
        int stable_needed = 25)
    {
        int stable = 0;
        auto quiet_since = std::chrono::steady_clock::now();
        std::uint64_t last_prog = progress();
        auto last_change = std::chrono::steady_clock::now();
        std::size_t npools = pika::resource::get_num_thread_pools();
        while (!done())
        {
            std::this_thread::sleep_for(std::chrono::milliseconds(4));
            std::int64_t busy = 0;
            for (std::size_t i = 0; i < npools; ++i)
            {
                auto& pool = pika::resource::get_thread_pool(i);
                // the counters are unsynchronised statistics (per queue, may be transiently off or even negative): any non-zero
                // value counts as activity, values never cancel each other
                auto mag = [](std::int64_t v) { return v < 0 ? -v : v; };
                busy += mag(pool.get_thread_count_pending(std::size_t(-1), false));
                busy += mag(pool.get_thread_count_active(std::size_t(-1), false));
                busy += mag(pool.get_thread_count_staged(std::size_t(-1), false));
            }
            busy += g_external_busy.load();
            bool delaying = g_perturb.in_delay.load() != 0;
            if (busy == 0 && !delaying)
            {
                // a deadlock verdict needs `stable_needed` consecutive quiet samples AND at least 1.2 s of uninterrupted quiet:
                // a task that is only invisible to the statistics for a moment (or yield-polls towards a deadline a few hundred
                // ms away) finishes within that time and turns the verdict into `done`
                if (stable == 0) quiet_since = std::chrono::steady_clock::now();
                if (++stable >= stable_needed && std::chrono::duration<double>(std::chrono::steady_clock::now() - quiet_since).count() >= 1.2)
                    return done() ? wait_result::done : wait_result::deadlock;
            }
            else
                stable = 0;
            std::uint64_t p = progress();
            auto now = std::chrono::steady_clock::now();
            if (p != last_prog)
            {
                last_prog = p;
                last_change = now;
            }
            else if (std::chrono::duration<double>(now - last_change).count() > stall_seconds)
                return wait_result::stalled;
        }
        return wait_result::done;
    }

    inline std::string pool_state()
    {
        std::string s;
        std::size_t npools = pika::resource::get_num_thread_pools();
        for (std::size_t i = 0; i < npools; ++i)
        {
            auto& pool = pika::resource::get_thread_pool(i);
            s += sf("pool%zu{pending=%ld active=%ld staged=%ld suspended=%ld} ", i,
                (long) pool.get_thread_count_pending(std::size_t(-1), false),
                (long) pool.get_thread_count_active(std::size_t(-1), false),
                (long) pool.get_thread_count_staged(std::size_t(-1), false),
                (long) pool.get_thread_count_suspended(std::size_t(-1), false));
            s += "per-worker pending:";
            for (std::size_t w = 0; w < pool.get_os_thread_count() && w < 32; ++w) s += sf(" %ld", (long) pool.get_thread_count_pending(w, false));
            s += " ";
        }
        return s;
    }
}    // namespace verif
