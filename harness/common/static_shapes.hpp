// Statically typed (un-erased) sender shapes shared by C03 and C18.  Every shape takes an instrumented leaf (channel and
// timing chosen at run time) and has a reference function giving the completion it denotes.
#pragma once

#include "senders.hpp"

namespace vs {
    constexpr int N_SHAPES = 20;

    inline outcome ref_then(outcome o, int k, bool throws)
    {
        if (o.first != c_value) return o;
        return throws ? outcome{c_error, k} : outcome{c_value, o.second * 3 + k};
    }

    // expected completion of shape `id` for a leaf that completes with `o`
    inline outcome shape_ref(int id, outcome o, int k)
    {
        auto val = [&](int v) { return outcome{c_value, v}; };
        switch (id)
        {
        case 0: return o;                                              // leaf
        case 1: return ref_then(o, k, false);                          // then
        case 2: return ref_then(o, k, true);                           // then throws
        case 3: return o.first == c_value ? val(o.second + k) : o;     // let_value -> just
        case 4: return o.first == c_error ? val(o.second + k) : o;     // let_error -> just
        case 5: return o;                                              // continues_on
        case 6: return o.first == c_value ? val(o.second + 7 * k) : o;     // when_all(leaf, just k) | then(a + 7b)
        case 7: return o.first == c_value ? val(2 * o.second + 1) : o;     // split, two consumers, when_all
        case 8: return o;                                                  // ensure_started
        case 9: return o.first == c_value ? val(k) : o;                    // drop_value | then const
        case 10: return o;                                                 // drop_operation_state
        case 11: return o;                                                 // require_started
        case 12: return o.first == c_value ? val(o.second + 5 * k) : o;    // then(tuple) | unpack | then
        case 13: return o.first == c_value ? val(o.second + 7 * (o.second + 1)) : o;    // then(tuple) | split_tuple | when_all
        case 14: return o;                                                 // continues_on | bulk(5)
        case 15: return ref_then(ref_then(o, k, false), k + 1, false);     // then | continues_on | then (two levels)
        // drop_operation_state after adaptors that keep the error/value in their own operation state
        case 16: return o.first == c_value ? val(o.second + 7 * k) : o;    // when_all | drop_operation_state | then
        case 17: return o;                                                 // ensure_started | drop_operation_state
        case 18: return o;                                                 // continues_on | bulk | drop_operation_state
        case 19: return o.first == c_value ? val(o.second + 7 * k) : o;    // when_all_vector | drop_operation_state | then
        default: return o;
        }
    }

    // invoke `f(sender)` with the un-erased sender of shape `id`
    template <typename F>
    void with_shape(int id, leaf_sender leaf, int k, F&& f)
    {
        ex::thread_pool_scheduler sched{};
        switch (id)
        {
        case 0: f(std::move(leaf)); break;
        case 1: f(std::move(leaf) | ex::then([k](tv x) { return tv(x.get() * 3 + k); })); break;
        case 2:
            f(std::move(leaf) | ex::then([k](tv x) -> tv {
                (void) x;
                throw verr(k);
            }));
            break;
        case 3: f(std::move(leaf) | ex::let_value([k](tv& x) { return ex::just(tv(x.get() + k)); })); break;
        case 4: f(std::move(leaf) | ex::let_error([k](std::exception_ptr ep) { return ex::just(tv(err_code(ep) + k)); })); break;
        case 5: f(std::move(leaf) | ex::continues_on(sched)); break;
        case 6: f(ex::when_all(std::move(leaf), ex::just(tv(k))) | ex::then([](tv a, tv b) { return tv(a.get() + 7 * b.get()); })); break;
        case 7:
        {
            auto sp = ex::split(std::move(leaf));
            auto a = sp | ex::then([](tv const& x) { return tv(x.get()); });
            auto b = sp | ex::continues_on(sched) | ex::then([](tv const& x) { return tv(x.get() + 1); });
            f(ex::when_all(std::move(a), std::move(b)) | ex::then([](tv x, tv y) { return tv(x.get() + y.get()); }));
            break;
        }
        case 8: f(ex::ensure_started(std::move(leaf))); break;
        case 9: f(ex::drop_value(std::move(leaf)) | ex::then([k] { return tv(k); })); break;
        case 10: f(ex::drop_operation_state(std::move(leaf))); break;
        case 11: f(ex::require_started(std::move(leaf))); break;
        case 12:
            f(std::move(leaf) | ex::then([k](tv x) { return std::make_tuple(std::move(x), tv(k)); }) | ex::unpack() |
                ex::then([](tv a, tv b) { return tv(a.get() + 5 * b.get()); }));
            break;
        case 13:
        {
            auto [a, b] = ex::split_tuple(std::move(leaf) | ex::then([](tv x) {
                int v = x.get();
                return std::make_tuple(tv(v), tv(v + 1));
            }));
            f(ex::when_all(std::move(a), std::move(b)) | ex::then([](tv x, tv y) { return tv(x.get() + 7 * y.get()); }));
            break;
        }
        case 14: f(std::move(leaf) | ex::continues_on(sched) | ex::bulk(5, [](int, tv& x) { (void) x.get(); })); break;
        case 16:
            f(ex::when_all(std::move(leaf), ex::just(tv(k))) | ex::drop_operation_state() | ex::then([](tv a, tv b) { return tv(a.get() + 7 * b.get()); }));
            break;
        case 17: f(ex::ensure_started(std::move(leaf)) | ex::drop_operation_state()); break;
        case 18: f(std::move(leaf) | ex::continues_on(sched) | ex::bulk(5, [](int, tv& x) { (void) x.get(); }) | ex::drop_operation_state()); break;
        case 19:
        {
            std::vector<ex::unique_any_sender<tv>> v;
            v.emplace_back(std::move(leaf));
            v.emplace_back(ex::just(tv(k)));
            f(ex::when_all_vector(std::move(v)) | ex::drop_operation_state() | ex::then([](std::vector<tv> r) { return tv(r[0].get() + 7 * r[1].get()); }));
            break;
        }
        default:
            f(std::move(leaf) | ex::then([k](tv x) { return tv(x.get() * 3 + k); }) | ex::continues_on(sched) |
                ex::then([k](tv x) { return tv(x.get() * 3 + k + 1); }));
            break;
        }
    }
}    // namespace vs
