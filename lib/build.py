#!/usr/bin/env python3
"""Build orchestration: (re)builds libpika from /repo's *current working tree* in one of the
flavours, then the harness executables against it.  Always runs `cmake --build` (no-op ~1-2 s),
so an edited /repo source is picked up through Ninja's dependency tracking.

usage: build.py <flavour> [target ...]        (no targets = only libpika)
"""
import fcntl
import os
import subprocess
import sys
import time

VERIF = os.path.dirname(os.path.dirname(os.path.abspath(__file__)))
REPO = os.environ.get("VERIF_REPO", "/repo")
BUILD_ROOT = os.environ.get("VERIF_BUILD_ROOT", os.path.join(VERIF, "build"))
GUARD = "PIKA_VERIF_HOOKS"
JOBS = str(os.cpu_count() or 8)

# The image ships two fmt versions: fmt 12 under /root/miniconda (found first through PATH) and the
# Debian fmt 9 that the system spdlog was built against.  Mixing them does not compile, so pin
# the system one whenever it exists.
SYS_FMT = "/usr/lib/x86_64-linux-gnu/cmake/fmt"
FMT = ["-Dfmt_DIR=" + SYS_FMT] if os.path.isdir(SYS_FMT) else []

COMMON = FMT + [
    "-DPIKA_WITH_TESTS=OFF", "-DPIKA_WITH_EXAMPLES=OFF", "-DPIKA_WITH_MALLOC=system",
    "-DPIKA_WITH_COMPILER_WARNINGS=OFF", "-DPIKA_WITH_GIT_COMMIT=verif",
]

FLAVOURS = {
    # name: (build type, extra cxx flags, extra cmake args, extra link flags)
    "plain": ("RelWithDebInfo", "", [], ""),
    "tsan": ("RelWithDebInfo", "-fsanitize=thread -fno-omit-frame-pointer",
             ["-DPIKA_WITH_SANITIZERS=ON"], "-fsanitize=thread"),
    "asan": ("RelWithDebInfo",
             "-fsanitize=address,undefined -fno-sanitize-recover=undefined -fno-omit-frame-pointer",
             ["-DPIKA_WITH_SANITIZERS=ON"], "-fsanitize=address,undefined"),
    "mpi": ("RelWithDebInfo", "", ["-DPIKA_WITH_MPI=ON"], ""),
    "debug": ("Debug", "", [], ""),
}


def run(cmd, log, cwd=None):
    with open(log, "ab") as f:
        f.write(("\n$ " + " ".join(cmd) + "\n").encode())
        f.flush()
        p = subprocess.run(cmd, stdout=f, stderr=subprocess.STDOUT, cwd=cwd)
    return p.returncode


def tail(path, n=60):
    try:
        with open(path, "rb") as f:
            data = f.read().decode(errors="replace").splitlines()
        return "\n".join(data[-n:])
    except OSError:
        return ""


class BuildError(Exception):
    pass


def build(flavour, targets=(), quiet=False):
    """Returns the directory holding the harness executables."""
    if flavour not in FLAVOURS:
        raise BuildError("unknown flavour " + flavour)
    btype, cxxflags, extra, ldflags = FLAVOURS[flavour]
    root = os.path.join(BUILD_ROOT, flavour)
    pdir = os.path.join(root, "pika")
    hdir = os.path.join(root, "harness")
    os.makedirs(root, exist_ok=True)
    log = os.path.join(root, "build.log")
    t0 = time.time()
    with open(os.path.join(root, ".lock"), "w") as lockf:
        fcntl.flock(lockf, fcntl.LOCK_EX)
        try:
            if os.path.exists(log) and os.path.getsize(log) > 4_000_000:
                os.unlink(log)
        except OSError:
            pass
        flags = ("-D%s %s" % (GUARD, cxxflags)).strip()
        if not os.path.exists(os.path.join(pdir, "build.ninja")):
            cmd = ["cmake", "-G", "Ninja", "-S", REPO, "-B", pdir, "-DCMAKE_BUILD_TYPE=" + btype,
                   "-DCMAKE_CXX_FLAGS=" + flags] + COMMON + extra
            if ldflags:
                cmd += ["-DCMAKE_SHARED_LINKER_FLAGS=" + ldflags, "-DCMAKE_EXE_LINKER_FLAGS=" + ldflags]
            if run(cmd, log) != 0:
                raise BuildError("configuring pika (%s) failed:\n%s" % (flavour, tail(log)))
        if run(["cmake", "--build", pdir, "-j", JOBS], log) != 0:
            raise BuildError("building pika (%s) failed:\n%s" % (flavour, tail(log)))
        if targets:
            if not os.path.exists(os.path.join(hdir, "build.ninja")):
                cmd = ["cmake", "-G", "Ninja", "-S", os.path.join(VERIF, "harness"), "-B", hdir,
                       "-DCMAKE_BUILD_TYPE=" + btype, "-DCMAKE_CXX_FLAGS=" + flags,
                       "-Dpika_DIR=" + os.path.join(pdir, "lib", "cmake", "pika"),
                       "-DVERIF_FLAVOUR=" + flavour] + FMT
                if ldflags:
                    cmd += ["-DCMAKE_EXE_LINKER_FLAGS=" + ldflags]
                if run(cmd, log) != 0:
                    raise BuildError("configuring harness (%s) failed:\n%s" % (flavour, tail(log)))
            cmd = ["cmake", "--build", hdir, "-j", JOBS, "--target"] + list(targets)
            if run(cmd, log) != 0:
                raise BuildError("building harness %s (%s) failed:\n%s" % (targets, flavour, tail(log, 120)))
    if not quiet:
        print("[build] %s %s ok in %.1fs" % (flavour, " ".join(targets), time.time() - t0), flush=True)
    return hdir


if __name__ == "__main__":
    if len(sys.argv) < 2:
        print(__doc__)
        sys.exit(2)
    try:
        build(sys.argv[1], sys.argv[2:])
    except BuildError as e:
        print(str(e))
        sys.exit(2)
