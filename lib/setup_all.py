#!/usr/bin/env python3
"""Pre-builds all flavours and harness targets used by the quick tier, so that checks only do
incremental rebuilds afterwards."""
import importlib
import json
import os
import sys

sys.path.insert(0, os.path.dirname(os.path.abspath(__file__)))
from build import build, BuildError, VERIF

def main():
    need = {}
    m = json.load(open(os.path.join(VERIF, "MANIFEST.json")))
    for c in m["checks"]:
        mod = importlib.import_module("checks." + c["property_id"].lower())
        if hasattr(mod, "cases"):
            for case in mod.cases("quick", 1):
                if not os.path.isabs(case.exe):
                    need.setdefault(case.flavour, set()).add(case.exe)
        for fl, exes in getattr(mod, "EXTRA_TARGETS", {}).items():
            need.setdefault(fl, set()).update(exes)
    rc = 0
    for fl in sorted(need):
        try:
            build(fl, sorted(need[fl]))
        except BuildError as e:
            print(str(e))
            rc = 2
    return rc

if __name__ == "__main__":
    sys.exit(main())
