#!/usr/bin/env python3
"""Case scheduler, watchdog runner, sanitizer-log reader, known-finding matcher and evidence writer
shared by all checks.  A check module (lib/checks/cNN.py) supplies the cases; this file executes
them against freshly (re)built flavours of /repo and decides the three-valued verdict."""
import concurrent.futures
import fnmatch
import json
import os
import re
import signal
import subprocess
import sys
import threading
import time

from build import build, BuildError, VERIF

EVID = os.path.join(VERIF, "evidence")
REPLAYS = os.path.join(EVID, "replays")
TMP = os.path.join(EVID, "tmp")
SUPP = os.path.join(VERIF, "supp")
MAX_SLOTS = int(os.environ.get("VERIF_SLOTS", "32"))


class Case:
    """One process execution."""

    def __init__(self, flavour, exe, args, cls, env=None, slots=4, timeout=300, note=None, expect_exit=None,
                 wrapper=None):
        self.flavour = flavour
        self.exe = exe
        self.args = [str(a) for a in args]
        self.cls = cls  # scenario class, part of crash/hang keys
        self.env = env or {}
        self.slots = max(1, min(int(slots), MAX_SLOTS))
        self.timeout = timeout
        self.note = note
        self.expect_exit = expect_exit  # None: 0 required; callable(rc, out, err) -> list of (key, detail)
        self.wrapper = wrapper or []  # e.g. ["taskset", "-c", "2,3"] or ["mpirun", ...]

    def describe(self):
        return {"flavour": self.flavour, "exe": self.exe, "args": self.args, "env": self.env, "cls": self.cls,
                "wrapper": self.wrapper}


class Outcome:
    def __init__(self, case):
        self.case = case
        self.result = None  # parsed @@RESULT dict
        self.violations = []  # (key, detail)
        self.inconclusive = []  # reasons
        self.rc = None
        self.wall = 0.0
        self.stdout = ""
        self.stderr = ""
        self.attempts = 0
        self.san_reports = {"attributed": 0, "unattributed": 0}
        self.extra_lines = []  # other @@ lines (e.g. @@LOG for offline checkers)
        self.first_timeout = None  # description of a first attempt that timed out (the case was re-run once)
        self.tsan_runtime_crash = False  # libtsan died by itself: the case is dropped, counted in the evidence


def san_env(flavour, logbase):
    env = {}
    if flavour == "tsan":
        env["TSAN_OPTIONS"] = ("suppressions=%s/tsan.supp:halt_on_error=0:second_deadlock_stack=1:"
                               "history_size=4:log_path=%s:report_signal_unsafe=0" % (SUPP, logbase))
    elif flavour == "asan":
        env["ASAN_OPTIONS"] = ("abort_on_error=1:detect_leaks=1:detect_stack_use_after_return=0:"
                               "suppressions=%s/asan.supp:log_path=%s:quarantine_size_mb=64" % (SUPP, logbase))
        env["LSAN_OPTIONS"] = "suppressions=%s/lsan.supp:print_suppressions=0" % SUPP
        env["UBSAN_OPTIONS"] = "print_stacktrace=1:halt_on_error=1:suppressions=%s/ubsan.supp:log_path=%s" % (
            SUPP, logbase)
    return env


def signame(rc):
    if rc is None:
        return "none"
    if rc < 0:
        try:
            return signal.Signals(-rc).name
        except ValueError:
            return "SIG%d" % -rc
    if rc > 128:
        try:
            return signal.Signals(rc - 128).name
        except ValueError:
            pass
    return "exit%d" % rc


def split_reports(text):
    """Split a sanitizer log into report blocks."""
    blocks, cur = [], []
    for line in text.splitlines():
        if line.startswith("==================") or "SUMMARY:" in line and cur:
            if "SUMMARY:" in line:
                cur.append(line)
            if cur and any("WARNING: ThreadSanitizer" in l or "ERROR: AddressSanitizer" in l or
                           "ERROR: LeakSanitizer" in l or "runtime error:" in l for l in cur):
                blocks.append("\n".join(cur))
            cur = []
        else:
            cur.append(line)
    if cur and any("WARNING: ThreadSanitizer" in l or "ERROR: AddressSanitizer" in l or
                   "ERROR: LeakSanitizer" in l or "runtime error:" in l for l in cur):
        blocks.append("\n".join(cur))
    return blocks


ACCESS_HDR = re.compile(r"^\s+(Read|Write|Previous read|Previous write|Atomic read|Atomic write|Previous atomic read|"
                        r"Previous atomic write|Cycle in lock order|Mutex M\d+ acquired here)")


def access_frames(blk, depth=4):
    """The innermost `depth` frames of the access stacks of a TSan report (not the thread-creation stacks):
    a report is attributed to a property only if the racing accesses themselves are in its mechanism."""
    out, take = [], False
    for line in blk.splitlines():
        if ACCESS_HDR.match(line):
            take = True
            continue
        if not line.strip():
            take = False
            continue
        if take:
            m = re.match(r"\s+#(\d+) ", line)
            if m and int(m.group(1)) < depth:
                out.append(line)
    return "\n".join(out) if out else blk


def run_one(hdirs, case, attribute_re, idx, prop):
    out = Outcome(case)
    exe = os.path.join(hdirs[case.flavour], case.exe) if not os.path.isabs(case.exe) else case.exe
    logbase = os.path.join(TMP, "%s-%d-%d.san" % (prop, os.getpid(), idx))
    env = dict(os.environ)
    env.update(san_env(case.flavour, logbase))
    env.update(case.env)
    for attempt in (1, 2):
        out.attempts = attempt
        for f in os.listdir(TMP):
            if f.startswith(os.path.basename(logbase)):
                try:
                    os.unlink(os.path.join(TMP, f))
                except OSError:
                    pass
        t0 = time.time()
        timed_out = False
        try:
            p = subprocess.Popen(case.wrapper + [exe] + case.args, stdout=subprocess.PIPE, stderr=subprocess.PIPE,
                                 env=env, cwd=TMP, start_new_session=True)
            try:
                so, se = p.communicate(timeout=case.timeout)
            except subprocess.TimeoutExpired:
                timed_out = True
                try:
                    os.killpg(p.pid, signal.SIGKILL)
                except OSError:
                    pass
                so, se = p.communicate()
            out.rc = p.returncode
        except OSError as e:
            out.inconclusive.append("cannot execute %s: %s" % (exe, e))
            return out
        out.wall = time.time() - t0
        out.stdout = so.decode(errors="replace")
        out.stderr = se.decode(errors="replace")
        if timed_out:
            if attempt == 1:
                # re-run once before reporting a hang; the first time-out is kept visible (printed and counted in the evidence)
                out.first_timeout = "%s %s (%ds); stdout tail: %s" % (case.exe, " ".join(case.args), case.timeout, out.stdout[-300:].replace("\n", " | "))
                sys.stderr.write("[%s] NOTE first attempt timed out, re-running once: %s\n" % (prop, out.first_timeout))
                continue
            out.violations.append(("%s:hang:%s" % (prop, case.cls),
                                   "no result within %ds in two attempts; stdout tail: %s" % (
                                       case.timeout, out.stdout[-600:])))
            return out
        break
    early = []
    for line in out.stdout.splitlines():
        if line.startswith("@@RESULT "):
            try:
                out.result = json.loads(line[9:])
            except ValueError as e:
                out.inconclusive.append("unparsable result line: %s" % e)
        elif line.startswith("@@VIOLATION "):
            try:
                v = json.loads(line[12:])
                early.append((v["key"], v["detail"] + " (reported before the process ended)"))
            except ValueError:
                pass
        elif line.startswith("@@"):
            out.extra_lines.append(line)
    # sanitizer logs
    santext = ""
    for f in sorted(os.listdir(TMP)):
        if f.startswith(os.path.basename(logbase)):
            try:
                with open(os.path.join(TMP, f), errors="replace") as fh:
                    santext += fh.read()
                os.unlink(os.path.join(TMP, f))
            except OSError:
                pass
    santext_all = santext + "\n" + out.stderr
    if case.flavour in ("tsan", "asan"):
        for blk in split_reports(santext_all):
            kind = "tsan" if "ThreadSanitizer" in blk else ("lsan" if "LeakSanitizer" in blk else (
                "asan" if "AddressSanitizer" in blk else "ubsan"))
            m = re.search(r"(ThreadSanitizer|AddressSanitizer|LeakSanitizer): ([a-zA-Z\- ]+?)(?: on| \(|$|:)", blk, re.M)
            what = (m.group(2).strip().replace(" ", "-") if m else "report")
            if kind == "tsan" and attribute_re is not None and not attribute_re.search(access_frames(blk)):
                out.san_reports["unattributed"] += 1
                continue
            out.san_reports["attributed"] += 1
            out.violations.append(("%s:sanitizer:%s:%s:%s" % (prop, kind, what, case.cls), blk[:3000]))
    if case.expect_exit is not None:
        for kv in case.expect_exit(out.rc, out.stdout, out.stderr):
            out.violations.append(kv)
    elif out.rc == 66 and case.flavour == "tsan" and out.result is not None:
        pass  # TSan's "reports were printed" exit code; the reports themselves were classified above
    elif case.flavour == "tsan" and tsan_runtime_crash(santext_all):
        # libtsan itself died (SEGV inside the TSan runtime, typically hashing its shadow call stack): pika's context switch
        # has no TSan fiber annotations, so the per-OS-thread shadow stack drifts whenever tasks migrate and eventually
        # overflows.  A tool failure is not a verdict about pika: the case is dropped from this run, counted and printed.  The
        # same scenario always also runs on the plain (and mostly the ASan) flavour, where a real crash shows as such.
        out.tsan_runtime_crash = True
        out.violations = [v for v in out.violations if ":sanitizer:" in v[0]]
        sys.stderr.write("[%s] NOTE libtsan crashed by itself (DEADLYSIGNAL inside the TSan runtime), case dropped: %s %s\n" % (prop, case.exe, " ".join(case.args)))
    elif out.rc != 0 and not any(":sanitizer:" in k for k, _ in out.violations):
        if out.result is None or out.rc < 0 or out.rc > 2:
            out.violations.append(("%s:crash:%s:%s" % (prop, case.cls, signame(out.rc)),
                                   "exit=%s stderr tail: %s" % (out.rc, out.stderr[-1500:])))
    if out.result is None:
        out.violations.extend(early)
    if out.result is not None:
        for v in out.result.get("violations", []):
            out.violations.append((v["key"], "%s (x%d)" % (v["detail"], v.get("count", 1))))
        for r in out.result.get("inconclusive", []):
            out.inconclusive.append(r)
    elif case.expect_exit is None and not out.violations:
        out.inconclusive.append("no @@RESULT line (rc=%s) stderr tail: %s" % (out.rc, out.stderr[-400:]))
    return out


def tsan_runtime_crash(text):
    """True if the process was killed by a fault INSIDE the TSan runtime: 'ThreadSanitizer:DEADLYSIGNAL' and either no stack
    could be printed (nested fault) or the innermost frames of the faulting stack are libtsan's own."""
    if "ThreadSanitizer:DEADLYSIGNAL" not in text:
        return False
    i = text.find("ERROR: ThreadSanitizer: SEGV")
    if i < 0:
        return True  # "nested bug in the same thread, aborting": nothing printable
    frames = re.findall(r"^\s+#(\d+) (.*)$", text[i:i + 6000], re.M)
    inner = [f for n, f in frames if int(n) <= 2]
    if not inner:
        return True
    return all(("libtsan" in f or "__sanitizer::" in f or "__tsan" in f) for f in inner)


def run_cases(prop, cases, attribute=None, progress=True):
    """Build the needed flavours, run all cases under the slot budget, return outcomes."""
    os.makedirs(TMP, exist_ok=True)
    os.makedirs(REPLAYS, exist_ok=True)
    need = {}
    # thorough workloads are 4-10x the quick ones and run 16 at a time: their per-case watchdog is scaled accordingly (a
    # time-out is only ever "no result": hangs are found by the in-process watchdogs long before)
    scale = 5 if os.environ.get("VERIF_RUNNING_TIER") == "thorough" else 1
    for c in cases:
        if scale != 1 and not getattr(c, "_scaled", False):
            c.timeout *= scale
            c._scaled = True
        if c.flavour == "tsan":
            # pika's context switch carries no TSan fiber annotations.  TSan keeps one shadow call stack per OS thread; a task
            # that suspends on one worker and resumes on another leaves its frames on the first worker's shadow stack for
            # ever.  pika's own TSan mode switches task stealing off in the local* schedulers for this reason, but the
            # shared-priority scheduler still migrates tasks, so its workers' shadow stacks overflow after enough
            # migrations and libtsan itself dies (DEADLYSIGNAL inside __tsan::CurrentStackId).  That is a tool limit, not a
            # property violation: TSan legs therefore never use shared-priority (it stays covered on the plain flavour).
            def no_sp(a):
                if a == "--scheduler=shared-priority":
                    return "--scheduler=local-priority-fifo"
                if a == "--policy=7":
                    return "--policy=1"
                if a.startswith("--layout="):  # "policy:size,..." of the extra pools (C10)
                    return "--layout=" + ",".join(("1:" + e.split(":", 1)[1]) if e.startswith("7:") else e for e in a[9:].split(","))
                return a
            c.args = [no_sp(a) for a in c.args]
            if "--no-shared-priority=1" not in c.args:
                c.args.append("--no-shared-priority=1")  # harnesses that pick policies themselves (C05) honour this
        if not os.path.isabs(c.exe):
            need.setdefault(c.flavour, set()).add(c.exe)
    hdirs = {}
    for fl, targets in need.items():
        hdirs[fl] = build(fl, sorted(targets))
    attribute_re = re.compile(attribute) if attribute else None
    outcomes = [None] * len(cases)
    lock = threading.Condition()
    used = [0]

    def worker(i):
        c = cases[i]
        with lock:
            while used[0] + c.slots > MAX_SLOTS and used[0] > 0:
                lock.wait()
            used[0] += c.slots
        try:
            outcomes[i] = run_one(hdirs, c, attribute_re, i, prop)
        finally:
            with lock:
                used[0] -= c.slots
                lock.notify_all()

    with concurrent.futures.ThreadPoolExecutor(max_workers=16) as tp:
        list(tp.map(worker, range(len(cases))))
    return outcomes


def load_known():
    try:
        with open(os.path.join(VERIF, "known_findings.json")) as f:
            return json.load(f)
    except (OSError, ValueError):
        return {"known": [], "fixed": []}


def finish(prop, tier, seed, t0, outcomes, rule, required_bits=(), extra_cov=None, extra_viol=(), extra_inconc=(),
           assumptions=(), min_cases=1, extra_signatures=(), extra_evaluations=0, extra_bits=None, extra_samples=()):
    """Aggregate, match known findings, write evidence, print verdict lines; returns the exit code."""
    known = [k for k in load_known().get("known", []) if k.get("property") == prop]
    evaluations = 0
    counters, bits, hooks = {}, {}, {}
    signatures = set()
    samples = []
    viols = {}  # key -> (detail, case)
    inconcl = list(extra_inconc)
    san = {"attributed": 0, "unattributed": 0}
    flav = {}
    for o in outcomes:
        if o is None:
            inconcl.append("case not executed")
            continue
        flav[o.case.flavour] = flav.get(o.case.flavour, 0) + 1
        for k in san:
            san[k] += o.san_reports[k]
        r = o.result
        if r:
            evaluations += int(r.get("cases", 0))
            for k, v in r.get("counters", {}).items():
                counters[k] = counters.get(k, 0) + v
            for k, v in r.get("bits", {}).items():
                bits[k] = bits.get(k, 0) + v
            for k, v in r.get("hooks", {}).items():
                hooks[k] = hooks.get(k, 0) + v
            for s in r.get("signatures", []):
                signatures.add(o.case.flavour + "|" + s)
            for s in r.get("samples", []):
                if len(samples) < 8:
                    samples.append(s)
        for key, detail in o.violations:
            if key not in viols:
                viols[key] = (detail, o.case)
        for why in o.inconclusive:
            inconcl.append("%s %s: %s" % (o.case.exe, " ".join(o.case.args), why))
    for key, detail, case in extra_viol:
        if key not in viols:
            viols[key] = (detail, case)
    evaluations += int(extra_evaluations)
    for sgn in extra_signatures:
        signatures.add(sgn)
    for k, v in (extra_bits or {}).items():
        bits[k] = bits.get(k, 0) + v
    for smp in extra_samples:
        if len(samples) < 8:
            samples.append(smp)
    missing = [b for b in required_bits if not bits.get(b)]
    if missing and not viols:
        inconcl.append("required path bits never observed: %s" % ", ".join(missing))
    if evaluations < min_cases and not viols:
        inconcl.append("only %d cases produced a result" % evaluations)
    nontrivial = sorted(s for s in signatures if "1" in s.rsplit("|", 1)[-1])
    printed_known, new = [], []
    for key, (detail, case) in sorted(viols.items()):
        hit = None
        for k in known:
            if fnmatch.fnmatchcase(key, k["key"]):
                hit = k
                break
        if hit:
            printed_known.append((key, hit))
        else:
            new.append((key, detail, case))
    cov = {
        "evaluations": evaluations,
        "distinct_nontrivial": len(nontrivial),
        "rule": rule,
        "samples": samples if samples else [c.describe() for c in [o.case for o in outcomes if o][:3]],
        "oracle_events": counters,
        "path_bits": bits,
        "hook_hits": hooks,
        "processes": len(outcomes),
        "processes_by_flavour": flav,
        "sanitizer_reports": san,
        "inconclusive": inconcl[:20],
        "known_findings_printed": sorted(set(k for k, _ in printed_known)),
        "violation_keys": [k for k, _, _ in new],
        "first_attempt_timeouts": [o.first_timeout for o in outcomes if o is not None and o.first_timeout][:10],
        "tsan_runtime_crashes_dropped": sum(1 for o in outcomes if o is not None and o.tsan_runtime_crash),
    }
    if extra_cov:
        cov.update(extra_cov)
    ev = {
        "property_id": prop, "tier": tier, "seed": int(seed), "level": "exploration", "coverage": cov,
        "assumptions": list(assumptions), "wall_s": round(time.time() - t0, 2), "violations": len(new),
    }
    os.makedirs(EVID, exist_ok=True)
    tmp = os.path.join(EVID, ".%s.json.tmp" % prop)
    with open(tmp, "w") as f:
        json.dump(ev, f, indent=1)
    os.replace(tmp, os.path.join(EVID, "%s.json" % prop))
    seen = set()
    for key, hit in printed_known:
        if hit["key"] in seen:
            continue
        seen.add(hit["key"])
        print("KNOWN-FINDING: property=%s %s [%s]" % (prop, hit["what"], key))
    rc = 0
    for n, (key, detail, case) in enumerate(new):
        path = os.path.join(REPLAYS, "%s-%s-%d-%d.json" % (prop, tier, int(seed), n))
        with open(path, "w") as f:
            json.dump({"property": prop, "key": key, "detail": detail, "seed": int(seed), "tier": tier,
                       "case": case.describe() if case else None}, f, indent=1)
        print("VIOLATION property=%s replay=%s" % (prop, path))
        print("  key=%s\n  %s" % (key, detail[:1200].replace("\n", "\n  ")))
        rc = 1
    print("[%s %s seed=%s] cases=%d processes=%d distinct_nontrivial=%d violations=%d known=%d inconclusive=%d wall=%.1fs"
          % (prop, tier, seed, evaluations, len(outcomes), len(nontrivial), len(new), len(seen), len(inconcl),
             time.time() - t0))
    print("  events: " + json.dumps(counters, sort_keys=True)[:900])
    print("  bits:   " + json.dumps(bits, sort_keys=True)[:600])
    if rc == 0 and inconcl:
        for w in inconcl[:8]:
            print("INCONCLUSIVE: " + w[:600])
        rc = 2
    return rc
