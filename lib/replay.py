#!/usr/bin/env python3
"""bin/check replay <file> [--attempts N]: re-execute the recorded case against the current /repo tree.
Schedules are not deterministic, so the case is repeated up to N times (default 20)."""
import json
import re
import sys

from runner import Case, run_cases


def main(argv):
    if not argv:
        print(__doc__)
        return 2
    attempts = 20
    if "--attempts" in argv:
        attempts = int(argv[argv.index("--attempts") + 1])
    with open(argv[0]) as f:
        rec = json.load(f)
    c = rec.get("case")
    if not c:
        print("replay file has no executable case (oracle ran in the driver); key=%s\n%s" % (rec["key"], rec["detail"]))
        return 2
    prop = rec["property"]
    for i in range(attempts):
        case = Case(c["flavour"], c["exe"], c["args"], c["cls"], env=c.get("env"), wrapper=c.get("wrapper"))
        (o,) = run_cases(prop, [case])
        keys = [k for k, _ in o.violations]
        print("attempt %d: rc=%s violations=%s" % (i + 1, o.rc, keys))
        if rec["key"] in keys:
            print("REPRODUCED %s\n%s" % (rec["key"], dict(o.violations)[rec["key"]][:2000]))
            return 1
    print("not reproduced in %d attempts" % attempts)
    return 0
