"""C05 - runtime life cycle: wait/stop drain all work, restart works."""
import random
import time

from runner import Case, run_cases, finish

RULE = ("one case = one process running a random history over 3-6 runtime incarnations with different policy / worker count / small "
        "stack size: start(entry function returning a chosen code, finalizing from inside in a third of the incarnations), then "
        "steps of submit (tree programs), external OS-thread submitters running concurrently with the following calls, wait(), "
        "suspend() + submit-while-suspended + resume(), then finalize (from outside or from a task) and stop(); after every wait()/"
        "stop() each group of work whose submission happened-before the call must be fully drained (spawned == exited incl. "
        "descendants), no body may run between suspend() returning and resume() being called, stop() must return the entry function's "
        "result and every incarnation must run its own configuration; distinct = history prefix + path-bit signature; non-trivial = "
        "restart / wait with a concurrent submitter / suspend cycle / work queued while suspended / wait predicate polled")
ATTR = (r"init_runtime|runtime\.cpp|thread_manager\.cpp|global_activity_count|scheduled_thread_pool_impl\.hpp|"
        r"local_priority_queue_scheduler\.hpp|c05_lifecycle")


def cases(tier, seed):
    rnd = random.Random(seed * 53 + 5)
    out = []
    big = tier == "thorough"
    for n in range(40 if not big else 300):
        out.append(Case("plain", "c05_lifecycle",
                        ["--incarnations=%d" % rnd.randint(3, 6), "--steps=%d" % rnd.choice([10, 30, 60]),
                         "--perturb=" + rnd.choice(["gac", "gac", "light", "none"]), "--seed=%d" % (seed * 1000 + n)],
                        cls="history", slots=9, timeout=150))
    for n in range(2 if not big else 10):
        # ASan: one incarnation only. After a restart pika maps new task stacks where old ones were unmapped and the stale
        # use-after-scope shadow of the old frames makes ASan report ordinary code (false alarm of the tool on remapped stacks).
        out.append(Case("tsan" if n % 2 == 0 else "asan", "c05_lifecycle",
                        ["--incarnations=%d" % (3 if n % 2 == 0 else 1), "--steps=12", "--perturb=gac", "--bind=1", "--seed=%d" % (seed * 1000 + 500 + n)],
                        cls="history:" + ("tsan" if n % 2 == 0 else "asan"), slots=9, timeout=900))
    return out


def run(tier, seed):
    t0 = time.time()
    outs = run_cases("C05", cases(tier, seed), attribute=ATTR)
    return finish("C05", tier, seed, t0, outs, RULE,
                  required_bits=["restart", "wait_with_concurrent_submitter", "suspend_cycle", "queued_while_suspended", "wait_predicate_polled", "entry_keeps_working_after_finalize"],
                  assumptions=["life-cycle calls are issued from the main OS thread; nothing is submitted from outside after finalize()",
                               "'eventually returns' is judged as bounded progress (process watchdog)"])
