"""C10 - work runs where it was sent: scheduler, pool and hint placement."""
import random
import time

from runner import Case, run_cases, finish
from checks.c01 import POLICIES

RULE = ("one case = one runtime with a random pool layout from the resource partitioner (default pool + 0-3 extra pools of random "
        "policy and size, offsets not aligned to pool sizes) running ~1500 random pipelines built at run time: 1-6 hops over "
        "schedule / transfer_just / continues_on / bulk / std_thread_scheduler / execute with random hints, priorities and stack "
        "sizes, submitted from tasks of every pool and from the main OS thread (start_detached, sync_wait); callables yield and "
        "really suspend (woken from another pool) and check pool, task-ness, submitter-inlining and, on static pools with a hint and "
        "normal priority, the worker in every phase; distinct = (layout, default policy, path-bit signature); non-trivial = "
        "static-hint phases / suspension inside callable / std::thread hop / bulk hop / execute / several pools observed")
ATTR = (r"thread_pool_scheduler(_bulk)?\.hpp|std_thread_scheduler\.hpp|schedule_from\.hpp|create_work\.cpp|thread_pool_base\.cpp|"
        r"static_(priority_)?queue_scheduler\.hpp|detail_partitioner\.cpp|c10_placement")


def layouts(rnd, n):
    out = []
    for _ in range(n):
        k = rnd.choice([1, 1, 2, 2, 3])
        pools = []
        budget = 12
        for i in range(k):
            pol = rnd.choice([3, 4, 3, 4, 0, 1, 2, 5, 6, 7])  # static policies weighted up: they carry the hint guarantee
            size = rnd.randint(1, min(4, budget))
            budget -= size
            pools.append("%d:%d" % (pol, size))
            if budget <= 1:
                break
        out.append((",".join(pools), rnd.choice([1, 2, 3, 4])))
    return out


def cases(tier, seed):
    rnd = random.Random(seed * 41 + 10)
    out = []
    n = 0
    big = tier == "thorough"
    lays = [("3:2", 3), ("4:3,3:2", 1), ("", 4)] + layouts(rnd, 12 if not big else 80)
    for lay, dsz in lays:
        n += 1
        out.append(Case("plain", "c10_placement",
                        ["--layout=" + lay, "--default=%d" % dsz, "--scheduler=" + rnd.choice(POLICIES),
                         "--pipelines=%d" % (1500 if not big else 6000), "--drivers=%d" % rnd.choice([2, 4, 8]),
                         "--perturb=" + rnd.choice(["light", "none"]), "--seed=%d" % (seed * 1000 + n)],
                        cls="layout", slots=16, timeout=600))
    for k in range(2 if not big else 6):
        lay, dsz = lays[(k * 5 + seed) % len(lays)]
        n += 1
        out.append(Case("asan" if k % 2 else "tsan", "c10_placement",
                        ["--layout=" + lay, "--default=%d" % dsz, "--pipelines=400", "--drivers=2", "--seed=%d" % (seed * 1000 + n)],
                        cls="layout:" + ("asan" if k % 2 else "tsan"), slots=16, timeout=900))
    return out


def run(tier, seed):
    t0 = time.time()
    outs = run_cases("C10", cases(tier, seed), attribute=ATTR)
    return finish("C10", tier, seed, t0, outs, RULE,
                  required_bits=["static_hint_phase", "suspension_inside_callable", "std_thread_hop", "bulk_hop", "execute", "multi_pool", "wakeup_found_target_active"],
                  assumptions=["placement is judged for callables reached on the value channel", "the worker guarantee is judged only for "
                               "normal-priority hinted tasks on static policies; pools are bound to distinct PUs of the real machine"])
