"""C17 - concurrent queues return every element exactly once."""
import random
import time

from runner import Case, run_cases, finish

KINDS = ["deque", "fifo", "lifo", "abp_fifo", "abp_lifo", "cq", "ciq"]
RULE = ("one case = one history on a fresh container (contiguous_index_queue, lock-free deque, the four deque/queue based "
        "lockfree_*_backends, ConcurrentQueue): sequential histories of 10-3000 random pushes/pops at random ends compared with a "
        "std::deque / interval reference model, and concurrent histories with 2-16 plain threads (producers pushing unique ids "
        "at random ends with optional owner ping-pong pops for node recycling, consumers/thieves popping at random ends, index "
        "queue poppers on both ends) followed by a quiescent drain; distinct = (kind, mode, thread split, ping-pong); "
        "non-trivial = every listed combination (all of them move elements concurrently or check order)")


DEQUE_BASED = ["deque", "lifo", "abp_fifo", "abp_lifo"]


def cases(tier, seed):
    out = []
    n = 0
    big = tier == "thorough"
    for kind in KINDS:
        n += 1
        out.append(Case("plain", "c17_queues", ["--kind=" + kind, "--mode=sequential", "--cases=%d" % (300 if not big else 3000),
                                                 "--seed=%d" % (seed * 1000 + n)], cls="%s:sequential" % kind, slots=1, timeout=150))
        # single pushing thread for the deque-based containers (owner/thief and single-producer patterns); any mix for the others
        mixes = ["abp", "spl", "spl-left"] if kind in DEQUE_BASED else ["both"]
        for mix in mixes:
            for k in range(1 if not big else 6):
                n += 1
                out.append(Case("plain", "c17_queues", ["--kind=" + kind, "--mode=concurrent", "--mix=" + mix,
                                                         "--cases=%d" % (60 if not big else 300), "--per=%d" % (30000 if not big else 100000),
                                                         "--seed=%d" % (seed * 1000 + n)], cls="%s:concurrent:%s" % (kind, mix), slots=16, timeout=150))
            n += 1
            out.append(Case("asan", "c17_queues", ["--kind=" + kind, "--mode=concurrent", "--mix=" + mix, "--cases=%d" % (10 if not big else 60),
                                                    "--per=8000", "--seed=%d" % (seed * 1000 + n)], cls="%s:asan:%s" % (kind, mix), slots=16, timeout=150))
        # two or more concurrently pushing threads on the deque-based containers: known finding D16
        if kind in DEQUE_BASED:
            for mix in (["mpl-left"] if not big else ["mpl-left", "mpl", "both"]):
                n += 1
                out.append(Case("plain", "c17_queues", ["--kind=" + kind, "--mode=concurrent", "--mix=" + mix, "--cases=40", "--per=30000",
                                                         "--seed=%d" % (seed * 1000 + n)], cls="%s:concurrent:%s" % (kind, mix), slots=16, timeout=150))
    return out


def run(tier, seed):
    t0 = time.time()
    outs = run_cases("C17", cases(tier, seed))
    return finish("C17", tier, seed, t0, outs, RULE,
                  required_bits=["concurrent_elements", "sequential_checks", "ciq_cas_window"],
                  assumptions=["full linearizability is not checked (the property asks exactly-once, nothing invented, drain succeeds, "
                               "per-end order in sequential use)", "TSan is not used on these containers: upstream accepts and suppresses "
                               "their benign races (tools/tsan.supp, issue #990)"])
