"""C02 - no lost wake-up."""
import random
import time

from runner import Case, run_cases, finish
from checks.c01 import POLICIES

RULE = ("one case = one runtime incarnation (policy x workers) running N one-shot waiter/waker pairs over the facilities "
        "{raw agent suspend/resume, two-waker agent, detail::condition_variable, counting_semaphore, latch, pika::mutex, "
        "thread::join}, wakers on pika tasks and plain OS threads, under one perturbation profile (window = delay the "
        "suspending side between unlock and switch-off; waker = delay set_thread_state/helper; both; abort = force the "
        "retry helper to find a re-activated target); distinct = (flavour, configuration, profile, path-bit signature); "
        "non-trivial = a wake-up found its target still active / helper retried / helper aborted on tag change / OS-thread "
        "waker / steal observed")
ATTR = (r"set_thread_state|execution_agent|thread_data|scheduling_loop\.hpp|condition_variable|thread_helpers\.cpp|"
        r"spinlock\.hpp|c02_lost_wakeup|counting_semaphore|latch\.hpp|mutex\.cpp|thread\.cpp")


def cases(tier, seed):
    rnd = random.Random(seed * 11 + 2)
    out = []
    profiles = ["window", "waker", "both", "light"]
    n = 0
    if tier == "quick":
        pairs, wl, reps = 4000, [1, 4], 1
    else:
        pairs, wl, reps = 8000, [1, 2, 3, 5, 8, 16], 3
    for rep in range(reps):
        for pi, pol in enumerate(POLICIES):
            ws = wl + [rnd.choice([2, 3, 6, 8, 12, 16])]
            for wi, w in enumerate(ws):
                n += 1
                prof = profiles[(pi + wi + rep + seed) % (4 if tier == "thorough" else 3)]
                out.append(Case("plain", "c02_lost_wakeup",
                                ["--scheduler=" + pol, "--threads=%d" % w, "--pairs=%d" % pairs, "--perturb=" + prof,
                                 "--os=%d" % rnd.choice([10, 25, 50]), "--seed=%d" % (seed * 1000 + n)],
                                cls="%s:%s" % (pol, prof), slots=w + 2, timeout=300))
            n += 1
            out.append(Case("plain", "c02_lost_wakeup",
                            ["--scheduler=" + pol, "--threads=%d" % rnd.choice([2, 4, 8]), "--pairs=%d" % (pairs // 2),
                             "--perturb=abort", "--facility=agent2", "--os=30", "--seed=%d" % (seed * 1000 + n)],
                            cls="%s:abort" % pol, slots=8, timeout=300))
    tsan_pols = POLICIES if tier == "thorough" else [POLICIES[(seed + 1) % 8], POLICIES[(seed + 5) % 8]]
    for pol in tsan_pols:
        n += 1
        out.append(Case("tsan", "c02_lost_wakeup",
                        ["--scheduler=" + pol, "--threads=4", "--pairs=%d" % (6000 if tier == "thorough" else 1500),
                         "--perturb=both", "--os=25", "--bind=1", "--seed=%d" % (seed * 1000 + n)],
                        cls="%s:tsan" % pol, slots=5, timeout=900))
    if tier == "thorough":
        for pol in POLICIES:
            n += 1
            out.append(Case("debug", "c02_lost_wakeup",
                            ["--scheduler=" + pol, "--threads=6", "--pairs=8000", "--perturb=both", "--os=25",
                             "--seed=%d" % (seed * 1000 + n)], cls="%s:debug-assert" % pol, slots=8, timeout=900))
    return out


def run(tier, seed):
    t0 = time.time()
    outs = run_cases("C02", cases(tier, seed), attribute=ATTR)
    return finish("C02", tier, seed, t0, outs, RULE,
                  required_bits=["resume_found_target_active", "helper_retry", "helper_abort_tag_changed", "os_waker"],
                  assumptions=["safety reading: 'never quiescent with an issued wake-up outstanding' is decided on the "
                               "observed runs by a state-based watchdog; interleavings are sampled",
                               "wakers wait only for the waiter's registration flag"])
