"""C15 - workers are pinned to distinct PUs inside the process mask.

The real runtime is started (cfg_probe) under synthetic hwloc topologies and process masks, and on the real machine under
taskset; the probe prints, from inside the running runtime, every worker's PU mask / PU number / pool; the oracle below is
the property statement itself."""
import json
import random
import time

from runner import Case, run_cases, finish

RULE = ("one case = one start of the real runtime under HWLOC_SYNTHETIC='pack:S core:C pu:P' (S<=4, C<=16, P<=4) x process mask "
        "(full, contiguous, with holes, one PU per core, one socket only, partial cores: first PU in / later PU out) x thread count "
        "(1..#PUs(mask)+1, 'cores', 'all') x bind mode (balanced, compact, scatter, numa-balanced, none) x optional extra pools from "
        "the resource partitioner, plus real-machine cases under taskset with per-worker sched_getaffinity; distinct = (topology, "
        "mask class, mode, thread-count class, pools); non-trivial = mask with holes or partial cores, several sockets, extra "
        "pools, oversubscription request, keyword thread count, or real OS affinity observed")

MODES = ["balanced", "compact", "scatter", "numa-balanced", "none"]


def popcount(x):
    return bin(x).count("1")


def gen_mask(rnd, S, C, P):
    n = S * C * P
    full = (1 << n) - 1
    kind = rnd.choice(["full", "contig", "holes", "one-per-core", "one-socket", "partial-cores", "random"])
    if kind == "full":
        return full, kind
    if kind == "contig":
        a = rnd.randrange(n)
        b = rnd.randrange(a, n)
        return ((1 << (b + 1)) - 1) & ~((1 << a) - 1), kind
    if kind == "holes":
        m = full
        for _ in range(rnd.randint(1, max(1, n // 3))):
            m &= ~(1 << rnd.randrange(n))
        return (m or 1), kind
    if kind == "one-per-core":
        m = 0
        for c in range(S * C):
            if rnd.random() < 0.8:
                m |= 1 << (c * P + rnd.randrange(P))
        return (m or 1), kind
    if kind == "one-socket":
        s = rnd.randrange(S)
        m = ((1 << (C * P)) - 1) << (s * C * P)
        if S > 1 and rnd.random() < 0.5:  # a single PU on another socket: asymmetric
            o = (s + 1) % S
            m |= 1 << (o * C * P + rnd.randrange(C * P))
        return m, kind
    if kind == "partial-cores":
        m = 0
        for c in range(S * C):
            r = rnd.random()
            if r < 0.35 and P > 1:
                m |= 1 << (c * P)  # only the first PU of the core
            elif r < 0.8:
                m |= ((1 << P) - 1) << (c * P)
        return (m or 1), kind
    m = rnd.getrandbits(n) & full
    return (m or 1), kind


def synthetic_cases(tier, seed):
    rnd = random.Random(seed * 67 + 15)
    out = []
    count = 3000 if tier == "quick" else 30000
    for i in range(count):
        S = rnd.choice([1, 1, 2, 2, 3, 4])
        C = rnd.choice([1, 2, 3, 4, 6, 8, 16])
        P = rnd.choice([1, 2, 2, 4])
        while S * C * P > 64:
            C = max(1, C // 2)
        n = S * C * P
        mask, mkind = gen_mask(rnd, S, C, P)
        pus = popcount(mask)
        cores = sum(1 for c in range(S * C) if (mask >> (c * P)) & ((1 << P) - 1))
        mode = rnd.choice(MODES)
        tk = rnd.random()
        if tk < 0.1:
            threads, want = "cores", cores
        elif tk < 0.2:
            threads, want = "all", pus
        elif tk < 0.3:
            threads, want = str(pus + 1), None  # must be rejected
        else:
            t = rnd.randint(1, pus)
            threads, want = str(t), t
        pools = ""
        if want and want >= 3 and rnd.random() < 0.25 and threads.isdigit():
            k = rnd.randint(1, 2)
            sizes = []
            left = want - 1
            for _ in range(k):
                if left < 1:
                    break
                sz = rnd.randint(1, max(1, left // 2))
                sizes.append(sz)
                left -= sz
            pools = ",".join("%d:%d" % (rnd.choice([1, 3, 4, 7]), sz) for sz in sizes)
        args = ["--pika:threads=" + threads, "--pika:bind=" + mode]
        use_mask = mkind != "full" or rnd.random() < 0.5
        if use_mask:
            args.append("--pika:process-mask=0x%x" % mask)
        env = {"HWLOC_SYNTHETIC": "pack:%d core:%d pu:%d" % (S, C, P)}
        if pools:
            env["VERIF_POOLS"] = pools
        c = Case("plain", "cfg_probe", args, cls="synthetic:%s" % mode, env=env, slots=2, timeout=60, expect_exit=lambda rc, so, se: [])
        c.meta = dict(S=S, C=C, P=P, n=n, mask=mask if use_mask else (1 << n) - 1, mkind=mkind if use_mask else "full", mode=mode,
                      threads=threads, want=want, pools=pools, real=False)
        out.append(c)
    return out


def real_cases(tier, seed):
    rnd = random.Random(seed * 71 + 16)
    out = []
    for i in range(120 if tier == "quick" else 1200):
        ncpu = 16
        cpus = sorted(rnd.sample(range(ncpu), rnd.randint(1, ncpu)))
        mode = rnd.choice(MODES)
        tk = rnd.random()
        if tk < 0.15:
            threads, want = "all", len(cpus)
        elif tk < 0.3:
            threads, want = str(len(cpus) + 1), None
        else:
            t = rnd.randint(1, len(cpus))
            threads, want = str(t), t
        pools = ""
        if want and want >= 3 and rnd.random() < 0.3:
            pools = "%d:%d" % (rnd.choice([3, 4]), rnd.randint(1, want - 2))
        env = {"VERIF_OS_AFFINITY": "1"}
        if pools:
            env["VERIF_POOLS"] = pools
        # static default pool so that the hinted probe tasks stay on their worker
        args = ["--pika:threads=" + threads, "--pika:bind=" + mode, "--pika:scheduler=static"]
        c = Case("plain", "cfg_probe", args, cls="real:%s" % mode, env=env, slots=min(17, len(cpus) + 1), timeout=60,
                 expect_exit=lambda rc, so, se: [], wrapper=["taskset", "-c", ",".join(map(str, cpus))])
        mask = 0
        for x in cpus:
            mask |= 1 << x
        c.meta = dict(S=1, C=16, P=1, n=16, mask=mask, mkind="taskset", mode=mode, threads=threads, want=want, pools=pools, real=True)
        out.append(c)
    return out


def cases(tier, seed):
    return synthetic_cases(tier, seed) + real_cases(tier, seed)


def judge(o):
    """Returns (list of (key, detail), signature, bits)."""
    m = o.case.meta
    v = []
    cfg = "topology=%dx%dx%d mask=0x%x(%s) threads=%s bind=%s pools=%s%s" % (m["S"], m["C"], m["P"], m["mask"], m["mkind"], m["threads"], m["mode"],
                                                                                 m["pools"] or "-", " real-machine" if m["real"] else "")
    probe = None
    for line in o.stdout.splitlines():
        if line.startswith("@@PROBE "):
            try:
                probe = json.loads(line[8:])
            except ValueError:
                v.append(("C15:probe-unparsable", cfg))
    bits = {}
    if m["mkind"] in ("holes", "partial-cores", "one-per-core", "random", "one-socket", "taskset"):
        bits["mask_with_holes_or_partial_cores"] = 1
    if m["S"] > 1:
        bits["several_sockets"] = 1
    if m["pools"]:
        bits["extra_pools"] = 1
    if m["threads"] in ("cores", "all"):
        bits["keyword_thread_count"] = 1
    if m["real"]:
        bits["real_os_affinity"] = 1
    sig = "%dx%dx%d|%s|%s|%s|%s|1" % (m["S"], m["C"], m["P"], m["mkind"], m["mode"], "over" if m["want"] is None else m["threads"] if not m["threads"].isdigit() else "n",
                                      "pools" if m["pools"] else "-")
    if m["want"] is None:
        bits["oversubscription_request"] = 1
        # bind=none pins nothing, so a thread count above the number of PUs can be satisfied (pika's own tests oversubscribe
        # this way); the rejection is required for the binding modes
        if probe is not None and m["mode"] != "none":
            v.append(("C15:oversubscription-accepted:%s" % m["mode"], "more threads than PUs in the mask were accepted, runtime started with %d workers: %s" % (probe["workers"], cfg)))
        return v, sig, bits
    if probe is None:
        if o.rc is not None and o.rc < 0:
            v.append(("C15:crash:%s" % m["mode"], "probe died with signal %d: %s; stderr %s" % (-o.rc, cfg, o.stderr[-300:])))
        else:
            # the property quantifies over the configurations pika accepts; a rejected satisfiable request is recorded, not judged
            bits["satisfiable_request_rejected_by_pika"] = 1
        return v, sig, bits
    n = probe["workers"]
    if n != m["want"]:
        v.append(("C15:worker-count:%s" % m["mode"], "requested %s -> expected %d workers, runtime has %d: %s" % (m["threads"], m["want"], n, cfg)))
    # every worker in exactly one pool
    owner = {}
    for p in probe["pools"]:
        for w in range(p["offset"], p["offset"] + p["size"]):
            if w in owner:
                v.append(("C15:pool-membership", "worker %d belongs to pools %s and %s: %s" % (w, owner[w], p["name"], cfg)))
            owner[w] = p["name"]
    for w in range(n):
        if w not in owner:
            v.append(("C15:pool-membership", "worker %d belongs to no pool: %s" % (w, cfg)))
    if m["mode"] == "none":
        # unbound: the OS affinity must not be narrowed below the process affinity
        for e in probe.get("os_affinity", []):
            if e["observed"] and not set(x for x in range(16) if m["mask"] >> x & 1) <= set(e["cpus"]):
                v.append(("C15:none-narrowed", "bind=none but worker %d is restricted to %s: %s" % (e["w"], e["cpus"], cfg)))
        return v, sig, bits
    used = {}
    for e in probe["pu"]:
        b = e["bits"]
        if len(b) != 1:
            v.append(("C15:not-one-pu:%s" % m["mode"], "worker %d is bound to %d PUs %s: %s" % (e["w"], len(b), b, cfg)))
            continue
        pu = b[0]
        if not (m["mask"] >> pu) & 1:
            v.append(("C15:outside-mask:%s" % m["mode"], "worker %d is bound to PU %d outside the process mask: %s" % (e["w"], pu, cfg)))
        if pu in used:
            v.append(("C15:shared-pu:%s" % m["mode"], "workers %d and %d share PU %d: %s" % (used[pu], e["w"], pu, cfg)))
        used[pu] = e["w"]
        if e["pu_num"] != pu:
            v.append(("C15:reported-pu:%s" % m["mode"], "worker %d reports PU %d but its mask is PU %d: %s" % (e["w"], e["pu_num"], pu, cfg)))
    for e in probe.get("os_affinity", []):
        if not e["observed"]:
            continue
        want = [x["bits"] for x in probe["pu"] if x["w"] == e["w"]]
        if want and e["cpus"] != want[0]:
            v.append(("C15:os-affinity:%s" % m["mode"], "worker %d runs with OS affinity %s but reports PU %s: %s" % (e["w"], e["cpus"], want[0], cfg)))
    return v, sig, bits


def run(tier, seed):
    t0 = time.time()
    cs = cases(tier, seed)
    outs = run_cases("C15", cs)
    extra, sigs, bits, samples = [], set(), {}, []
    for o in outs:
        o.violations = [x for x in o.violations if ":hang:" in x[0]]  # the probe's exit code is part of the oracle below
        o.inconclusive = []
        vs, sig, b = judge(o)
        for key, detail in vs:
            extra.append((key, detail, o.case))
        sigs.add(sig)
        for k, val in b.items():
            bits[k] = bits.get(k, 0) + val
        if len(samples) < 6:
            samples.append({"env": o.case.env, "args": o.case.args, "wrapper": o.case.wrapper, "rc": o.rc,
                            "probe_pu": [l for l in o.stdout.splitlines() if l.startswith("@@PROBE")][:1]})
    return finish("C15", tier, seed, t0, outs, RULE, extra_viol=extra, extra_signatures=sigs, extra_evaluations=len(outs), extra_bits=bits,
                  extra_samples=samples,
                  required_bits=["mask_with_holes_or_partial_cores", "several_sockets", "extra_pools", "keyword_thread_count",
                                 "oversubscription_request", "real_os_affinity"],
                  assumptions=["under a synthetic topology hwloc refuses the actual binding call; the mapping computed and reported by the "
                               "running runtime is what is judged there", "real binding is observed on this machine's single 16-PU socket only"])
