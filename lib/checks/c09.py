"""C09 - latch, barrier, event and call_once release exactly when due."""
import random
import time

from runner import Case, run_cases, finish
from checks.c01 import POLICIES

RULE = ("one case = one runtime incarnation (policy x workers) x primitive: latch rounds (count 1-100 split into count_down(k) / "
        "arrive_and_wait(k) arrivals on tasks and OS threads, early, concurrent and late wait()ers, latch destroyed by the last "
        "participant), barrier cases (1-40 participants incl. OS threads and more participants than workers, 1-60 phases, "
        "arrive_and_wait / arrive+wait(token) / arrive_and_drop at random phases, counting completion function, plain per-phase "
        "cells), event (current and future waiters), call_once (2-64 callers, 0-3 throwing attempts); distinct = (flavour, "
        "configuration, primitive, profile, path-bit signature); non-trivial = blocked waiter / latch zero-window / late waiter / "
        "drop / split arrive-wait / throw-retry path / OS-thread participant observed")
ATTR = r"latch\.hpp|barrier\.(hpp|cpp)|event\.hpp|once\.hpp|condition_variable\.cpp|c09_sync"
MODES = ["latch", "barrier", "event", "once"]


def cases(tier, seed):
    rnd = random.Random(seed * 23 + 9)
    out = []
    n = 0
    reps = 1 if tier == "quick" else 6
    for rep in range(reps):
        for mi, mode in enumerate(MODES):
            pols = POLICIES if tier == "thorough" else [POLICIES[(seed + mi * 3 + k * 2) % 8] for k in range(4)]
            for pi, pol in enumerate(pols):
                w = [4, 1, 8, 2, 16, 3, 6, 12][(pi + mi + rep + seed) % 8]
                n += 1
                args = ["--scheduler=" + pol, "--threads=%d" % w, "--mode=" + mode,
                        "--perturb=" + ("sync" if (pi + rep) % 3 else "light"), "--os=%d" % rnd.choice([0, 25, 50]),
                        "--seed=%d" % (seed * 1000 + n)]
                big = tier == "thorough"
                if mode == "latch":
                    args += ["--rounds=%d" % (4000 if big else 800)]
                elif mode == "barrier":
                    args += ["--reps=%d" % (300 if big else 60), "--phases=%d" % (200 if big else 60)]
                else:
                    args += ["--reps=%d" % (1500 if big else 300)]
                out.append(Case("plain", "c09_sync", args, cls="%s:%s" % (mode, pol), slots=w + 2, timeout=600))
    for fl in ("tsan", "asan"):
        for mi, mode in enumerate(MODES):
            if fl == "asan" and tier == "quick" and mode not in ("latch",):
                continue
            n += 1
            out.append(Case(fl, "c09_sync",
                            ["--scheduler=" + POLICIES[(seed + mi) % 8], "--threads=4", "--mode=" + mode, "--perturb=sync",
                             "--bind=1", "--rounds=150", "--reps=%d" % (12 if mode == "barrier" else 60), "--phases=30",
                             "--seed=%d" % (seed * 1000 + n)], cls="%s:%s" % (mode, fl), slots=5, timeout=900))
    return out


def run(tier, seed):
    t0 = time.time()
    outs = run_cases("C09", cases(tier, seed), attribute=ATTR)
    return finish("C09", tier, seed, t0, outs, RULE,
                  required_bits=["blocked_waiter", "latch_zero_window", "latch_late_waiter", "barrier_drop",
                                 "barrier_split_arrive_wait", "barrier_more_participants_than_workers", "once_retry_after_throw",
                                 "os_thread_waiter"],
                  assumptions=["shadow counters are moved before the real arrival and read after the real departure",
                               "interleavings are sampled"])
