"""C18 - type-erased senders and functions behave like what they wrap."""
import time

from runner import Case, run_cases, finish

RULE = ("function cases: random histories (5-125 ops) over 5 slots of function<int(int)> / unique_function<int(int)> holding tracked "
        "callables of 13-270 bytes (inline and heap stored), ops assign/copy/move-assign/move-construct/swap/reset/copy-and-use/invoke "
        "(also throwing, also on empty wrappers) compared with a model of logical objects incl. per-copy call state; sender cases: "
        "histories over any_sender/unique_any_sender slots (assign, copy, move, conversion, reset, connect+start of a copy or of the "
        "wrapper, empty connect); pipeline cases: 16 static shapes x leaf channel x timing run un-erased, through unique_any_sender "
        "and (leaf/then shapes) through any_sender and an independent copy of it; selfref: a not trivially relocatable small "
        "callable; distinct = (mode, path-bit signature); non-trivial = inline and heap callables / empty call / throwing call / "
        "swap / copy / move / erased pipeline / sender history observed")
ATTR = r"any_sender|basic_function|unique_function\.hpp|function\.hpp|vtable|c18_erasure"


def cases(tier, seed):
    out = []
    n = 0
    big = tier == "thorough"
    for mode, cnt in (("function", 3000), ("sender", 2000), ("pipelines", 4000)):
        for k in range(2 if not big else 8):
            n += 1
            out.append(Case("plain", "c18_erasure", ["--mode=" + mode, "--count=%d" % (cnt if not big else cnt * 4), "--threads=%d" % (4 if k % 2 == 0 else 2),
                                                     "--seed=%d" % (seed * 1000 + n)], cls=mode, slots=5, timeout=600))
        n += 1
        out.append(Case("asan", "c18_erasure", ["--mode=" + mode, "--count=%d" % (cnt // 4 if not big else cnt), "--threads=4", "--bind=1",
                                                "--seed=%d" % (seed * 1000 + n)], cls=mode + ":asan", slots=5, timeout=900))
    n += 1
    out.append(Case("plain", "c18_erasure", ["--mode=selfref", "--count=1", "--seed=%d" % (seed * 1000 + n)], cls="selfref", slots=5, timeout=120))
    return out


def run(tier, seed):
    t0 = time.time()
    outs = run_cases("C18", cases(tier, seed), attribute=ATTR)
    return finish("C18", tier, seed, t0, outs, RULE,
                  required_bits=["inline_callable", "heap_callable", "empty_call", "throwing_call", "swap", "copy", "move", "erased_pipeline",
                                 "sender_history", "selfref"],
                  assumptions=["instances are counted by logical id, not by address (pika relocates inline callables bytewise by design)",
                               "any_sender's own small-buffer optimisation is compiled out upstream; the configuration a user gets is tested"])
