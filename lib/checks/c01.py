"""C01 - every submitted task runs exactly once, on one worker at a time."""
import random
import time

from runner import Case, run_cases, finish

POLICIES = ["local", "local-priority-fifo", "local-priority-lifo", "static", "static-priority",
            "abp-priority-fifo", "abp-priority-lifo", "shared-priority"]
RULE = ("one case = one runtime incarnation (policy x workers x mode x perturbation profile) executing a seeded random "
        "task program (fan-out trees, yields, suspend/resume by task and OS-thread wakers, pika::thread with join, "
        "priorities, stack sizes, hints, external submitters); distinct = distinct (flavour, configuration, path-bit "
        "signature); non-trivial = at least one of steal/staged-steal/migration/recycle/CAS-lost/helper-retry/staged "
        "observed by the hooks in that case")
ATTR = (r"scheduling_loop\.hpp|thread_queue(_mc)?\.hpp|queue_holder_thread\.hpp|_queue_scheduler\.hpp|"
        r"lockfree_queue_backends\.hpp|thread_data|create_work\.cpp|create_thread\.cpp|thread_pool_scheduler\.hpp|"
        r"set_thread_state|execution_agent|c01_exactly_once")


def cases(tier, seed):
    rnd = random.Random(seed * 7 + 1)
    out = []
    if tier == "quick":
        wsets = [1, 3, rnd.choice([5, 8, 12, 16])]
        modes = [("default", "light"), ("tight", "sched"), ("nosteal", "none")]
        tasks, reps = 30000, 1
    else:
        wsets = [1, 2, 3, 5, 8, 16, rnd.randint(4, 15)]
        modes = [("default", "light"), ("default", "sched"), ("tight", "sched"), ("tight", "none"),
                 ("nosteal", "light")]
        tasks, reps = 120000, 4
    n = 0
    for rep in range(reps):
        for pol in POLICIES:
            for w in wsets:
                for mode, pert in modes:
                    n += 1
                    out.append(Case("plain", "c01_exactly_once",
                                    ["--scheduler=" + pol, "--threads=%d" % w, "--tasks=%d" % tasks, "--mode=" + mode,
                                     "--perturb=" + pert, "--seed=%d" % (seed * 1000 + n),
                                     "--submitters=%d" % rnd.randint(0, 3), "--depth=%d" % rnd.randint(3, 7)],
                                    cls="%s:%s" % (pol, mode), slots=w + 1, timeout=300))
    # sustained load: many short tasks, shallow trees, all 16 workers, external submitters - keeps the terminated lists and
    # free lists of every queue full and stolen tasks retiring on foreign workers (a second-round seeded change in the
    # shared-priority holder only shows under this load)
    for rep in range(1 if tier == "quick" else 6):
        for pol in POLICIES + ["shared-priority"]:
            n += 1
            out.append(Case("plain", "c01_exactly_once",
                            ["--scheduler=" + pol, "--threads=16", "--tasks=600000", "--mode=default", "--perturb=none",
                             "--seed=%d" % (seed * 1000 + n), "--submitters=3", "--depth=2"], cls="%s:sustained" % pol, slots=17, timeout=400))
    # sanitizer flavours as additional oracles on the same program (thorough; a short pass in quick)
    extra = POLICIES if tier == "thorough" else [POLICIES[seed % 8], POLICIES[(seed + 3) % 8]]
    for pol in extra:
        for fl in (("tsan", "asan") if tier == "thorough" else ("tsan",)):
            n += 1
            out.append(Case(fl, "c01_exactly_once",
                            ["--scheduler=" + pol, "--threads=4", "--tasks=%d" % (20000 if tier == "thorough" else 6000),
                             "--mode=default", "--perturb=light", "--seed=%d" % (seed * 1000 + n), "--bind=1"],
                            cls="%s:%s" % (pol, fl), slots=5, timeout=600))
    if tier == "thorough":
        for pol in POLICIES:
            n += 1
            out.append(Case("debug", "c01_exactly_once",
                            ["--scheduler=" + pol, "--threads=6", "--tasks=60000", "--mode=tight", "--perturb=sched",
                             "--seed=%d" % (seed * 1000 + n)], cls="%s:debug-assert" % pol, slots=7, timeout=600))
    return out


def run(tier, seed):
    t0 = time.time()
    outs = run_cases("C01", cases(tier, seed), attribute=ATTR)
    return finish("C01", tier, seed, t0, outs, RULE,
                  required_bits=["steal", "staged_steal", "migration", "recycle_reuse", "helper_retry", "staged", "pending_boost_phase"],
                  assumptions=["interleavings are sampled, not enumerated", "the hook handler only delays OS threads",
                               "TSan flavour runs with pending-task stealing disabled by pika itself"])
