"""C16 - configuration precedence: command line over environment / PIKA_COMMANDLINE_OPTIONS over defaults; the resolved
value is what the running runtime uses; invalid values and unknown pika options stop start-up; non-pika arguments reach
the application.

Every case is one start of the real runtime (cfg_probe, pika::init).  The driver gives every setting a value through a
random subset of its sources, shuffles the command line, and compares what the probe reports from inside the running
runtime with a reference resolver (15 lines, below) and with a canonical single-source run of the same resolved
configuration."""
import json
import random
import time

from runner import Case, run_cases, finish

RULE = ("one case = one start of the real runtime; precedence cases: every setting (worker count, scheduler, bind mode, process "
        "mask, four stack sizes, four plain ini entries) gets a distinct value from a random subset of {environment variable, "
        "PIKA_COMMANDLINE_OPTIONS as option, PIKA_COMMANDLINE_OPTIONS as --pika:ini, --pika:ini, dedicated option}, options in "
        "random order, '=' and space-separated forms, on the real and three synthetic topologies; invalid cases: one bad value or "
        "unknown option through one source; argv cases: positional / registered / unknown application arguments interleaved "
        "with pika options; distinct = (setting, set of sources used) or (invalid class, source) or argv mode; non-trivial = at "
        "least two sources disagree, or an invalid/unknown input, or application arguments present")

TOPOS = [("", 16, 1), ("pack:1 core:8 pu:2", 8, 2), ("pack:2 core:4 pu:2", 8, 2), ("pack:1 core:4 pu:4", 4, 4)]
SCHED_DESC = {"local": "core-local_queue_scheduler", "local-priority-fifo": "core-local_priority_queue_scheduler",
              "local-priority-lifo": "core-local_priority_queue_scheduler", "static": "core-static_queue_scheduler",
              "static-priority": "core-static_priority_queue_scheduler", "abp-priority-fifo": "core-abp_fifo_priority_queue_scheduler",
              "abp-priority-lifo": "core-abp_fifo_priority_queue_scheduler", "shared-priority": "core-shared_priority_queue_scheduler"}
BINDS = ["balanced", "compact", "scatter", "none"]
STACKS = {"small": ("PIKA_SMALL_STACK_SIZE", "pika.stacks.small_size", 0x10000), "medium": ("PIKA_MEDIUM_STACK_SIZE", "pika.stacks.medium_size", 0x20000),
          "large": ("PIKA_LARGE_STACK_SIZE", "pika.stacks.large_size", 0x200000), "huge": ("PIKA_HUGE_STACK_SIZE", "pika.stacks.huge_size", 0x2000000)}
PLAIN = {"idle": ("PIKA_MAX_IDLE_LOOP_COUNT", "pika.max_idle_loop_count"), "busy": ("PIKA_MAX_BUSY_LOOP_COUNT", "pika.max_busy_loop_count"),
         "tqmax": ("PIKA_THREAD_QUEUE_MAX_THREAD_COUNT", "pika.thread_queue.max_thread_count"),
         "shutdown": ("PIKA_SHUTDOWN_CHECK_COUNT", "pika.shutdown_check_count")}
# setting -> (environment variable, dedicated option or None, ini key)
SETTINGS = {"threads": ("PIKA_THREADS", "--pika:threads", "pika.os_threads"), "scheduler": ("PIKA_SCHEDULER", "--pika:scheduler", "pika.scheduler"),
            "bind": ("PIKA_BIND", "--pika:bind", "pika.bind"), "mask": ("PIKA_PROCESS_MASK", "--pika:process-mask", "pika.process_mask")}
for _k, (_e, _i, _d) in STACKS.items():
    SETTINGS[_k] = (_e, None, _i)
for _k, (_e, _i) in PLAIN.items():
    SETTINGS[_k] = (_e, None, _i)
ENV_LEVEL = ("env", "cmdopts", "cmdopts_ini")
CMD_LEVEL = ("ini", "direct")


def popcount(x):
    return bin(x).count("1")


def cores_of(mask, P):
    return sum(1 for c in range(16 // P) if (mask >> (c * P)) & ((1 << P) - 1))


# ---------------------------------------------------------------------------------------------------- reference resolver
def allowed_values(srcs):
    """srcs: {source: value}.  The property: command line beats environment/PIKA_COMMANDLINE_OPTIONS beats default.  Within one
    level the statement leaves the order open, so any value of the winning level is allowed.  None = default."""
    cmd = [srcs[s] for s in CMD_LEVEL if s in srcs]
    if cmd:
        return set(cmd)
    env = [srcs[s] for s in ENV_LEVEL if s in srcs]
    if env:
        return set(env)
    return {None}


def thread_count(tv, mask, P):
    if tv is None or tv == "cores":
        return cores_of(mask, P)
    if tv == "all":
        return popcount(mask)
    return int(tv)


# ---------------------------------------------------------------------------------------------------- case generation
def distinct_values(rnd, setting, k, P):
    if setting == "threads":
        pool = ["1", "2", "3", "4", "cores", "all"]
    elif setting == "scheduler":
        pool = list(SCHED_DESC)
    elif setting == "bind":
        pool = list(BINDS)
    elif setting == "mask":
        pool = []
        while len(pool) < 6:
            m = rnd.getrandbits(16)
            if popcount(m) >= 4 and "0x%x" % m not in pool:
                pool.append("0x%x" % m)
    elif setting in STACKS:
        base = STACKS[setting][2]
        pool = []
        for mult in rnd.sample([1, 2, 3, 4, 5, 6, 7, 8], 6):
            v = max(0x4000, (base // 0x10000) * 0x1000 * 4) * mult
            if setting == "small":
                v = 0x8000 * (mult + 1)  # the probe itself needs a few KiB
            pool.append(rnd.choice(["0x%x", "%d", "0x%X"]) % v)
    else:
        pool = [str(rnd.randint(1000, 900000)) for _ in range(6)]
    rnd.shuffle(pool)
    return pool[:k]


def build_invocation(rnd, topo, assign, extra_tokens=(), env_extra=None):
    """assign: {setting: {source: value}} -> (args, env)."""
    env = dict(env_extra or {})
    if topo[0]:
        env["HWLOC_SYNTHETIC"] = topo[0]
    cmdopts, toks = [], []
    for setting, srcs in assign.items():
        e, opt, ini = SETTINGS[setting]
        for s, v in srcs.items():
            if s == "env":
                env[e] = v
            elif s == "cmdopts":
                cmdopts.append("%s=%s" % (opt, v))
            elif s == "cmdopts_ini":
                cmdopts.append("--pika:ini=%s=%s" % (ini, v))
            elif s == "ini":
                toks.append(["--pika:ini=%s=%s" % (ini, v)])
            elif s == "direct":
                toks.append(["%s=%s" % (opt, v)] if rnd.random() < 0.8 else [opt, v])
    for t in extra_tokens:
        toks.append(list(t))
    rnd.shuffle(toks)
    rnd.shuffle(cmdopts)
    if cmdopts:
        env["PIKA_COMMANDLINE_OPTIONS"] = " ".join(cmdopts)
    return [x for t in toks for x in t], env


def gen_assign(rnd, P, force_conflict=None, single=False, both_cmdopts_and_option=True):
    """single: one source per setting (used where another input is under test).  both_cmdopts_and_option=False avoids giving
    the same dedicated option through PIKA_COMMANDLINE_OPTIONS and on the command line (known finding D18 refuses to start
    then, which would hide every other setting of the run)."""
    assign = {}
    for setting, (e, opt, ini) in SETTINGS.items():
        sources = ["env", "cmdopts_ini", "ini"] + (["cmdopts", "direct"] if opt else [])
        p = 0.45 if setting in ("threads", "scheduler", "bind", "mask") else 0.22
        chosen = [s for s in sources if rnd.random() < p]
        if force_conflict == setting and len(chosen) < 2:
            chosen = rnd.sample(sources, 2)
        if single and chosen:
            chosen = [rnd.choice(chosen)]
        if not both_cmdopts_and_option and "cmdopts" in chosen and "direct" in chosen:
            chosen.remove(rnd.choice(["cmdopts", "direct"]))
        if chosen:
            vals = distinct_values(rnd, setting, len(chosen), P)
            assign[setting] = dict(zip(chosen, vals))
    return assign


def precedence_cases(tier, seed):
    rnd = random.Random(seed * 131 + 16)
    out = []
    n = 900 if tier == "quick" else 20000
    names = list(SETTINGS)
    for i in range(n):
        topo = rnd.choice(TOPOS)
        assign = gen_assign(rnd, topo[2], force_conflict=names[i % len(names)], both_cmdopts_and_option=(i % 8 == 0))
        args, env = build_invocation(rnd, topo, assign)
        c = Case("plain", "cfg_probe", args, cls="precedence", env=env, slots=2, timeout=40, expect_exit=lambda rc, so, se: [])
        c.meta = dict(kind="prec", topo=topo, assign=assign)
        out.append(c)
    return out


def canonical_for(meta):
    """The same resolved configuration given through dedicated options only (or --pika:ini where no option exists); None
    when some setting has more than one allowed value."""
    assign = {}
    for setting, srcs in meta["assign"].items():
        al = allowed_values(srcs)
        if len(al) != 1:
            return None
        v = next(iter(al))
        assign[setting] = {"direct" if SETTINGS[setting][1] else "ini": v}
    return assign


INVALID = [
    # (setting, bad value, class, sources it can be given through)
    ("threads", "abc", "garbage", ("env", "cmdopts", "ini", "direct")), ("threads", "0", "zero", ("env", "cmdopts", "ini", "direct")),
    ("threads", "3x", "trailing-garbage", ("env", "ini", "direct")), ("threads", "1.5", "fraction", ("env", "direct")),
    ("threads", "17", "more-than-pus", ("env", "ini", "direct", "cmdopts")), ("threads", "-2", "negative", ("env", "direct")),
    ("scheduler", "nonsense", "garbage", ("env", "cmdopts", "ini", "direct")), ("scheduler", "local-priority-fifoo", "near-miss", ("env", "direct")),
    ("bind", "nonsense", "garbage", ("env", "cmdopts", "ini", "direct")), ("bind", "compactt", "near-miss", ("env", "direct")),
    ("mask", "zzz", "garbage", ("env", "cmdopts", "ini", "direct")), ("mask", "0x0", "empty-mask", ("env", "ini", "direct")),
    ("mask", "0xf0000", "beyond-machine", ("env", "direct")), ("mask", "12", "no-0x", ("env", "direct")),
    ("small", "zzz", "garbage", ("env", "cmdopts_ini", "ini")), ("medium", "zzz", "garbage", ("env", "ini")),
    ("large", "lots", "garbage", ("env", "ini")), ("huge", "big", "garbage", ("env", "ini")),
    ("small", "0x10000zz", "trailing-garbage", ("env", "ini")), ("medium", "128k", "trailing-garbage", ("env", "ini")),
    ("small", "12345", "unaligned", ("env", "ini")), ("small", "0", "zero", ("env", "ini")),
]
UNKNOWN = [
    (["--pika:nonsense"], "unknown-option"), (["--pika:nonsense=1"], "unknown-option"), (["--pika:threadz=2"], "unknown-option"),
    (["--pika:bindd=none"], "unknown-option"), (["--pika:"], "unknown-option"), (["--pika:ini=pika.nonexistent.key=3"], "unknown-ini-key"),
    (["--pika:ini=nonsense"], "malformed-ini"), (["--pika:ini=pika.verif.custom=1"], "unknown-ini-key"), (["--nonpika-unknown=1"], "unknown-app-option"),
]


def invalid_cases(tier, seed):
    rnd = random.Random(seed * 137 + 17)
    out = []
    reps = 2 if tier == "quick" else 12
    for rep in range(reps):
        for setting, bad, klass, sources in INVALID:
            for src in sources:
                topo = TOPOS[0] if klass in ("more-than-pus", "beyond-machine") else rnd.choice(TOPOS)
                assign = gen_assign(rnd, topo[2], single=True)
                # remove every other source of the setting under test on the same or a higher level, so that the bad value is the
                # one the runtime has to use
                assign[setting] = {src: bad}
                if klass == "more-than-pus":
                    assign.pop("mask", None)
                    assign["bind"] = {"direct": rnd.choice(["balanced", "compact", "scatter"])}
                args, env = build_invocation(rnd, topo, assign)
                c = Case("plain", "cfg_probe", args, cls="invalid", env=env, slots=2, timeout=20, expect_exit=lambda rc, so, se: [])
                c.meta = dict(kind="invalid", topo=topo, setting=setting, bad=bad, klass=klass, src=src, assign=assign)
                out.append(c)
        # more threads than PUs while nothing is pinned: either refused or exactly that many workers (D20: silently fewer)
        for src in ("env", "cmdopts", "ini", "direct"):
            topo = rnd.choice(TOPOS)
            assign = gen_assign(rnd, topo[2], single=True)
            assign.pop("mask", None)
            assign["bind"] = {rnd.choice(["env", "direct", "ini"]): "none"}
            n = rnd.choice([17, 18, 24, 40])
            assign["threads"] = {src: str(n)}
            args, env = build_invocation(rnd, topo, assign)
            c = Case("plain", "cfg_probe", args, cls="unbound-oversubscription", env=env, slots=4, timeout=40, expect_exit=lambda rc, so, se: [])
            c.meta = dict(kind="oversub", topo=topo, n=n, src=src, assign=assign)
            out.append(c)
        for toks, klass in UNKNOWN:
            for via in ("cmdline", "cmdopts"):
                if via == "cmdopts" and klass == "unknown-app-option":
                    continue
                topo = rnd.choice(TOPOS)
                assign = gen_assign(rnd, topo[2], single=True)
                if via == "cmdline":
                    args, env = build_invocation(rnd, topo, assign, extra_tokens=[toks])
                else:
                    args, env = build_invocation(rnd, topo, assign)
                    env["PIKA_COMMANDLINE_OPTIONS"] = (env.get("PIKA_COMMANDLINE_OPTIONS", "") + " " + " ".join(toks)).strip()
                c = Case("plain", "cfg_probe", args, cls="unknown", env=env, slots=2, timeout=40, expect_exit=lambda rc, so, se: [])
                c.meta = dict(kind="unknown", topo=topo, toks=toks, klass=klass, via=via, assign=assign)
                out.append(c)
    return out


WORDS = ["foo", "bar", "12", "3.5", "a=b", "x y", "input.dat", "/tmp/some/path", "pika:threads=3", "pika", "päth", "a,b;c", "%d", "'q'", "[1]",
         "key:value", "0x10", "{}", "*", "~", "a\\b", "tab\tbed", "${HOME}", "$[pika.bind]", "say \"hi\"", "it's", "C:\\dir\\file.txt", "#5", "a|b", "x;y", "!bang",
         "100%"]


def argv_cases(tier, seed):
    rnd = random.Random(seed * 139 + 18)
    out = []
    n = 240 if tier == "quick" else 5000
    for i in range(n):
        topo = rnd.choice(TOPOS)
        assign = gen_assign(rnd, topo[2])
        # keep the cheap part: at most the four main settings, one source each on the command line
        assign = {k: {"direct": v[next(iter(v))]} for k, v in assign.items() if SETTINGS[k][1] and rnd.random() < 0.7}
        mode = ("positional", "registered", "registered-vm", "allow-unknown")[i % 4]
        extra, env_extra = [], {}
        expect_pos, expect_opts = [], {}
        npos = rnd.randint(1, 6)
        for _ in range(npos):
            w = rnd.choice(WORDS)
            extra.append([w])
            expect_pos.append(w)
        if mode in ("registered", "registered-vm"):
            env_extra["VERIF_APP_OPTS"] = "1"
            if mode == "registered-vm":
                env_extra["VERIF_ENTRY_VM"] = "1"
            if rnd.random() < 0.8:
                v = str(rnd.randint(-50, 5000))
                extra.append(["--app-n=" + v] if rnd.random() < 0.5 else ["--app-n", v])
                expect_opts["app-n"] = v
            if rnd.random() < 0.8:
                v = rnd.choice(["zed", "x=y", "some words", "--pika:threads=9"][:3])
                extra.append(["--app-name=" + v] if rnd.random() < 0.5 else ["--app-name", v])
                expect_opts["app-name"] = v
            if rnd.random() < 0.5:
                extra.append(["--app-flag"])
                expect_opts["app-flag"] = True
        if mode == "allow-unknown":
            if rnd.random() < 0.5:
                env_extra["PIKA_COMMANDLINE_ALLOW_UNKNOWN"] = "1"
            else:
                extra.append(["--pika:ini=pika.commandline.allow_unknown=1"])
            for _ in range(rnd.randint(1, 3)):
                extra.append([rnd.choice(["--unk=3", "--verbose", "-x", "--other-opt=a=b", "-j4", "--unk2"])])
        args, env = build_invocation(rnd, topo, assign, extra_tokens=extra, env_extra=env_extra)
        c = Case("plain", "cfg_probe", args, cls="argv:" + mode, env=env, slots=2, timeout=40, expect_exit=lambda rc, so, se: [])
        c.meta = dict(kind="argv", topo=topo, mode=mode, assign=assign, expect_opts=expect_opts)
        out.append(c)
    return out


def cases(tier, seed):
    rnd = random.Random(seed * 149 + 19)
    prec = precedence_cases(tier, seed)
    canon, seen = [], {}
    for c in prec:
        ca = canonical_for(c.meta)
        if ca is None:
            continue
        key = json.dumps([c.meta["topo"][0], ca], sort_keys=True)
        c.meta["canon_key"] = key
        if key in seen:
            continue
        args, env = build_invocation(rnd, c.meta["topo"], ca)
        cc = Case("plain", "cfg_probe", args, cls="canonical", env=env, slots=2, timeout=40, expect_exit=lambda rc, so, se: [])
        cc.meta = dict(kind="canon", topo=c.meta["topo"], assign=ca, canon_key=key)
        seen[key] = cc
        canon.append(cc)
    return prec + canon + invalid_cases(tier, seed) + argv_cases(tier, seed)


# ---------------------------------------------------------------------------------------------------- judging
def parse_probe(o):
    probe, init = None, None
    for line in o.stdout.splitlines():
        if line.startswith("@@PROBE "):
            try:
                probe = json.loads(line[8:])
            except ValueError:
                probe = {"unparsable": True}
        elif line.startswith("@@INIT "):
            init = line[7:]
    return probe, init


def describe(case):
    env = {k: v for k, v in case.env.items() if k.startswith("PIKA_") or k.startswith("HWLOC") or k.startswith("VERIF_")}
    return "env=%s argv=%s" % (json.dumps(env, sort_keys=True), json.dumps(case.args))


ATTRIBUTION_ORDER = ("cmdopts", "cmdopts_ini", "env", "ini", "direct")


def who(value, srcs, same=None):
    """Which source's value is in use; when several carry it, PIKA_COMMANDLINE_OPTIONS entries are named first."""
    for s in ATTRIBUTION_ORDER:
        if s in srcs and (same(srcs[s], value) if same else srcs[s] == value):
            return s
    return None


def combo(srcs):
    return "+".join(sorted(srcs))


def num(s):
    try:
        return int(s, 0)
    except (ValueError, TypeError):
        return None


def observed_settings(probe, topo):
    """What the running runtime uses, per setting, in the value space of the inputs where possible."""
    obs = {}
    obs["workers"] = probe["workers"]
    obs["scheduler_desc"] = probe["pools"][0]["scheduler"]
    obs["scheduler_ini"] = probe["ini"]["pika.scheduler"]
    obs["bind_ini"] = probe["ini"]["pika.bind"]
    obs["bits"] = [tuple(e["bits"]) for e in probe["pu"]]
    obs["mask_ini"] = probe["ini"]["pika.process_mask"]
    for k in STACKS:
        obs[k] = (probe["stacks"][k], probe["measured"][k]["size"], probe["measured"][k]["touched"])
    for k, (e, ini) in PLAIN.items():
        obs[k] = probe["ini"].get(ini)
    return obs


def judge_prec(o, canon_obs):
    m = o.case.meta
    topo = m["topo"]
    P = topo[2]
    v = []
    probe, init = parse_probe(o)
    cfg = describe(o.case)
    assign = m["assign"]
    al = {s: allowed_values(assign.get(s, {})) for s in SETTINGS}

    def outcome_key(setting, got_src, rejected=False):
        srcs = assign.get(setting, {})
        if rejected:
            cause = "cmdopts+direct" if ("cmdopts" in srcs and "direct" in srcs) else (combo(srcs) or "unset")
            return "C16:precedence:%s:rejected:%s" % (setting, cause)
        best = [s for s in CMD_LEVEL if s in srcs] or [s for s in ENV_LEVEL if s in srcs] or ["default"]
        return "C16:precedence:%s:%s-beats-%s" % (setting, got_src or "other", "+".join(best))

    if probe is None or probe.get("unparsable"):
        if o.rc is not None and o.rc < 0 and o.rc != -6:
            v.append(("C16:crash:precedence", "probe died with signal %d: %s" % (-o.rc, cfg)))
            return v, None
        # every value is valid in isolation, so the configuration must be accepted; find the setting the message blames
        text = (init or "") + " " + o.stdout[-600:] + " " + o.stderr[-600:]
        blamed = None
        for setting, (e, opt, ini) in SETTINGS.items():
            srcs = assign.get(setting, {})
            if len(srcs) < 2:
                continue
            if (opt and opt in text) or any(("\"%s;" % a) in text or (";%s\"" % a) in text for a in srcs.values()):
                blamed = setting
                break
        if blamed is None:
            multi = [s for s in SETTINGS if len(assign.get(s, {})) >= 2]
            blamed = multi[0] if len(multi) == 1 else "unattributed"
        v.append((outcome_key(blamed, None, rejected=True) if blamed != "unattributed" else "C16:precedence:unattributed:rejected:" + "/".join(sorted(combo(x) for x in assign.values() if len(x) >= 2)),
                  "start-up refused a configuration whose every value is valid: %s; %s" % (text.strip()[-300:], cfg)))
        return v, None
    obs = observed_settings(probe, topo)
    # process mask first: the thread keywords depend on it
    masks = set()
    for mv in al["mask"]:
        masks.add(0xffff if mv is None else int(mv, 16))
    mi = obs["mask_ini"]
    got_mask = 0xffff if mi in ("", "<unset>") else num(mi)
    if got_mask not in masks:
        v.append((outcome_key("mask", who(mi, assign.get("mask", {}))), "process mask in use is %r, allowed by precedence: %s; %s" % (mi, sorted(al["mask"], key=str), cfg)))
    # worker count
    # the keywords are evaluated against the mask actually in use, so that a mis-resolved mask (reported above) is not
    # reported a second time as a wrong worker count
    if got_mask is not None and got_mask not in masks:
        masks = {got_mask}
    counts = set(thread_count(tv, mk, P) for tv in al["threads"] for mk in masks)
    if obs["workers"] not in counts:
        srcs = assign.get("threads", {})
        gs = who(obs["workers"], srcs, same=lambda tv, w: any(thread_count(tv, mk, P) == w for mk in masks))
        if gs is None and "threads" in assign and thread_count(None, got_mask or 0xffff, P) == obs["workers"]:
            gs = "default"
        v.append((outcome_key("threads", gs), "runtime has %d workers, precedence allows %s (threads from %s); %s" % (obs["workers"], sorted(counts), srcs, cfg)))
    if str(obs["workers"]) != probe["ini"]["pika.os_threads"]:
        v.append(("C16:effect:threads:ini-vs-runtime", "pika.os_threads=%s but %d workers run; %s" % (probe["ini"]["pika.os_threads"], obs["workers"], cfg)))
    # scheduler
    want = set("local-priority-fifo" if x is None else x for x in al["scheduler"])
    if obs["scheduler_desc"] not in set(SCHED_DESC[x] for x in want):
        got = who(obs["scheduler_desc"], assign.get("scheduler", {}), same=lambda a, b: SCHED_DESC[a] == b)
        v.append((outcome_key("scheduler", got or ("default" if obs["scheduler_desc"] == SCHED_DESC["local-priority-fifo"] else None)),
                  "default pool runs %s, precedence allows %s; %s" % (obs["scheduler_desc"], sorted(want), cfg)))
    # bind
    wantb = set("balanced" if x is None else x for x in al["bind"])
    unbound = all(len(b) == 0 for b in obs["bits"])
    if obs["bind_ini"] not in wantb:
        v.append((outcome_key("bind", who(obs["bind_ini"], assign.get("bind", {}))), "binding mode in use is %r, precedence allows %s; %s" % (obs["bind_ini"], sorted(wantb), cfg)))
    elif wantb == {"none"} and not unbound:
        v.append((outcome_key("bind", who(obs["bind_ini"], assign.get("bind", {}))), "bind=none resolved but workers are pinned %s (pika.bind=%s); %s" % (obs["bits"], obs["bind_ini"], cfg)))
    elif "none" not in wantb:
        if unbound:
            v.append((outcome_key("bind", who("none", assign.get("bind", {}))), "binding %s resolved but no worker is pinned (pika.bind=%s); %s" % (sorted(wantb), obs["bind_ini"], cfg)))
        else:
            for w, b in enumerate(obs["bits"]):
                if len(b) != 1 or (got_mask is not None and not (got_mask >> b[0]) & 1):
                    v.append(("C16:effect:bind:pu", "worker %d bound to %s under mask %s; %s" % (w, b, mi, cfg)))
                    break
    # stack sizes
    for k, (e, ini, dflt) in STACKS.items():
        wants = set(dflt if x is None else int(x, 0) for x in al[k])
        conf, meas, touched = obs[k]
        if conf not in wants:
            gs = who(conf, assign.get(k, {}), same=lambda a, b: int(a, 0) == b)
            v.append((outcome_key(k, gs or ("default" if conf == dflt else None)), "%s stack size in use is %d, precedence allows %s; %s" % (k, conf, sorted(wants), cfg)))
        if meas != conf or not touched:
            v.append(("C16:effect:%s:measured" % k, "scheduler reports %d but a %s task runs on %d bytes (touched=%s); %s" % (conf, k, meas, touched, cfg)))
    # plain ini entries
    for k, (e, ini) in PLAIN.items():
        if None in al[k]:
            continue
        if obs[k] not in al[k]:
            v.append((outcome_key(k, who(obs[k], assign.get(k, {}))), "%s is %r, precedence allows %s; %s" % (ini, obs[k], sorted(al[k]), cfg)))
    # differential: the canonical single-source run of the same resolved configuration must look the same from inside
    ck = m.get("canon_key")
    if ck and ck in canon_obs and not v:
        ref = canon_obs[ck]
        for field in ("workers", "scheduler_desc", "bits", "small", "medium", "large", "huge"):
            if ref[field] != obs[field]:
                v.append(("C16:differential:%s" % field, "%s differs from the canonical single-source run: %s vs %s; %s" % (field, obs[field], ref[field], cfg)))
    return v, obs


def judge_invalid(o):
    m = o.case.meta
    probe, init = parse_probe(o)
    cfg = describe(o.case)
    v = []
    if probe is not None:
        if m["kind"] == "invalid":
            v.append(("C16:invalid-accepted:%s:%s:%s" % (m["setting"], m["src"], m["klass"]),
                      "invalid value %r for %s given through %s did not stop start-up: entry function ran with %d workers, stacks %s; %s" %
                      (m["bad"], m["setting"], m["src"], probe.get("workers", -1), probe.get("stacks"), cfg)))
        else:
            v.append(("C16:unknown-accepted:%s:%s" % (m["klass"], m["via"]), "%s %s did not stop start-up: entry function ran; %s" % (m["klass"], m["toks"], cfg)))
    elif o.rc == 0:
        v.append(("C16:invalid-exit-zero:%s" % m.get("klass"), "start-up stopped but the process reported success (exit 0, %s); %s" % (init, cfg)))
    return v


SPECIAL = set("\\'\"$")


def judge_argv(o):
    m = o.case.meta
    v = judge_argv_inner(o)
    # known finding D19 is keyed by its input class: an application argument containing a backslash, a quote or ini
    # expansion syntax.  Any other application argument that is changed or refused is a fresh violation.
    if v and any(SPECIAL & set(a) for a in o.case.args if not a.startswith("--pika:")):
        return [("C16:argv:%s:special-chars" % m["mode"], "application argument with a backslash, quote or $-expansion syntax: " + v[0][1])]
    return v


def judge_argv_inner(o):
    m = o.case.meta
    probe, init = parse_probe(o)
    cfg = describe(o.case)
    v = []
    mode = m["mode"]
    if probe is None or probe.get("unparsable"):
        v.append(("C16:argv:%s:rejected" % mode, "start-up refused application arguments (%s | %s); %s" % (init, o.stderr[-200:].strip(), cfg)))
        return v
    # what the application was given on the command line, pika options removed
    given = []
    args = list(o.case.args)
    i = 0
    while i < len(args):
        a = args[i]
        if a.startswith("--pika:"):
            if "=" not in a and i + 1 < len(args) and a in ("--pika:threads", "--pika:scheduler", "--pika:bind", "--pika:process-mask"):
                i += 1
            i += 1
            continue
        given.append(a)
        i += 1
    if mode in ("positional", "allow-unknown"):
        got = probe["entry_argv"][1:]
        if got != given:
            v.append(("C16:argv:%s:changed" % mode, "entry function received %s, command line had %s; %s" % (got, given, cfg)))
    elif mode == "registered":
        got = probe["entry_argv"][1:]
        pos_given = []
        j = 0
        while j < len(given):
            g = given[j]
            if g.startswith("--app-"):
                if "=" not in g and g != "--app-flag":
                    j += 1
                j += 1
                continue
            pos_given.append(g)
            j += 1
        # options may be re-serialised (name=value); positionals must keep value and order
        opts_got, pos_got = {}, []
        j = 0
        while j < len(got):
            g = got[j]
            if g.startswith("--app-"):
                if "=" in g:
                    name, val = g[2:].split("=", 1)
                    opts_got[name] = val
                elif g == "--app-flag":
                    opts_got["app-flag"] = True
                else:
                    opts_got[g[2:]] = got[j + 1] if j + 1 < len(got) else None
                    j += 1
            else:
                pos_got.append(g)
            j += 1
        if pos_got != pos_given:
            v.append(("C16:argv:registered:positional-changed", "entry function received positionals %s, command line had %s; %s" % (pos_got, pos_given, cfg)))
        if opts_got != m["expect_opts"]:
            v.append(("C16:argv:registered:options-changed", "entry function received options %s, command line had %s; %s" % (opts_got, m["expect_opts"], cfg)))
        if any(g.startswith("--pika:") for g in got):
            v.append(("C16:argv:registered:pika-option-leaked", "entry function received a pika option: %s; %s" % (got, cfg)))
    else:
        vm = probe.get("vm", {})
        pos_given = []
        j = 0
        while j < len(given):
            g = given[j]
            if g.startswith("--app-"):
                if "=" not in g and g != "--app-flag":
                    j += 1
                j += 1
                continue
            pos_given.append(g)
            j += 1
        got_opts = {k: (str(x) if k == "app-n" else x) for k, x in vm.items() if k != "positional"}
        if got_opts != m["expect_opts"]:
            v.append(("C16:argv:registered-vm:options-changed", "variables_map has %s, command line had %s; %s" % (got_opts, m["expect_opts"], cfg)))
        if vm.get("positional", []) != pos_given:
            v.append(("C16:argv:registered-vm:positional-changed", "variables_map positionals %s, command line had %s; %s" % (vm.get("positional"), pos_given, cfg)))
    # the pika options of the same command line must still have been honoured
    for setting, srcs in m["assign"].items():
        val = srcs["direct"]
        if setting == "threads":
            mk = int(m["assign"]["mask"]["direct"], 16) if "mask" in m["assign"] else 0xffff
            if probe["workers"] != thread_count(val, mk, m["topo"][2]):
                v.append(("C16:argv:%s:pika-option-lost:threads" % mode, "workers=%d with --pika:threads=%s; %s" % (probe["workers"], val, cfg)))
        elif setting == "scheduler" and probe["pools"][0]["scheduler"] != SCHED_DESC[val]:
            v.append(("C16:argv:%s:pika-option-lost:scheduler" % mode, "scheduler %s with --pika:scheduler=%s; %s" % (probe["pools"][0]["scheduler"], val, cfg)))
    return v


def run(tier, seed):
    t0 = time.time()
    cs = cases(tier, seed)
    outs = run_cases("C16", cs)
    extra, sigs, bits, samples = [], set(), {}, []

    def bit(k, n=1):
        bits[k] = bits.get(k, 0) + n

    canon_obs = {}
    for o in outs:
        hung = [x for x in o.violations if ":hang:" in x[0]]
        o.violations = []  # exit codes are judged below
        o.inconclusive = []
        m = o.case.meta
        if hung and m["kind"] == "invalid":
            # start-up neither ran the entry function nor reported an error: keyed by the input class and the scheduler in use
            sch = next(iter(allowed_values(m["assign"].get("scheduler", {})))) or "local-priority-fifo"
            o.violations = [("C16:invalid-hang:%s:%s:%s" % (m["setting"], m["klass"], sch),
                             "invalid value %r for %s given through %s: start-up neither failed nor ran the entry function within %ds (twice); %s" %
                             (m["bad"], m["setting"], m["src"], o.case.timeout, describe(o.case)))]
        elif hung:
            o.violations = [("C16:hang:%s" % m["kind"], hung[0][1] + "; " + describe(o.case))]
        if o.case.meta["kind"] == "canon":
            probe, init = parse_probe(o)
            if probe and not probe.get("unparsable"):
                canon_obs[o.case.meta["canon_key"]] = observed_settings(probe, o.case.meta["topo"])
                bit("canonical_runs")
    for o in outs:
        m = o.case.meta
        if m["kind"] == "prec":
            vs, obs = judge_prec(o, canon_obs)
            for setting, srcs in m["assign"].items():
                nontriv = len(set(srcs.values())) >= 2
                sigs.add("prec|%s|%s|%d" % (setting, combo(srcs), 1 if nontriv else 0))
                if nontriv:
                    bit("settings_with_disagreeing_sources")
                    if any(s in srcs for s in CMD_LEVEL) and any(s in srcs for s in ENV_LEVEL):
                        bit("cmdline_vs_envlevel_conflicts")
                    elif any(s in srcs for s in ENV_LEVEL):
                        bit("envlevel_vs_default_only")
                    if "ini" in srcs and "direct" in srcs:
                        bit("ini_and_option_both_on_cmdline_not_ordered_by_the_property")
            if m.get("canon_key") in canon_obs and obs is not None:
                bit("differential_comparisons")
            if obs is not None:
                bit("configurations_observed_from_inside")
        elif m["kind"] in ("invalid", "unknown"):
            vs = judge_invalid(o)
            sigs.add("%s|%s|%s|1" % (m["kind"], m.get("setting", m.get("klass")), m.get("src", m.get("via"))))
            bit("invalid_or_unknown_inputs")
            if not vs:
                bit("startup_stopped_with_error")
        elif m["kind"] == "oversub":
            probe, init = parse_probe(o)
            vs = []
            sigs.add("oversub|%s|1" % m["src"])
            bit("unbound_oversubscription_requests")
            if probe is not None and probe.get("workers") != m["n"]:
                vs.append(("C16:effect:threads:unbound-oversubscription-clamped", "%d threads requested through %s with bind=none: accepted, pika.os_threads=%s, "
                           "but %s workers run; %s" % (m["n"], m["src"], probe.get("ini", {}).get("pika.os_threads"), probe.get("workers"), describe(o.case))))
        elif m["kind"] == "argv":
            vs = judge_argv(o)
            sigs.add("argv|%s|1" % m["mode"])
            bit("argv_cases_" + m["mode"].replace("-", "_"))
            if any(SPECIAL & set(a) for a in o.case.args if not a.startswith("--pika:")):
                bit("argv_cases_with_special_characters")
            elif not vs:
                bit("argv_cases_plain_delivered_unchanged")
        else:
            vs = []
            if o.case.meta["canon_key"] not in canon_obs:
                # a canonical run that does not start is a plain single-source configuration pika rejects
                probe, init = parse_probe(o)
                vs = [("C16:canonical-rejected", "single-source configuration refused (%s); %s" % (init, describe(o.case)))]
        for key, detail in vs:
            extra.append((key, detail, o.case))
        if len(samples) < 6 and m["kind"] != "canon":
            pl = [l for l in o.stdout.splitlines() if l.startswith("@@PROBE")][:1]
            samples.append({"kind": m["kind"], "env": {k: x for k, x in o.case.env.items() if k.startswith(("PIKA_", "HWLOC", "VERIF_"))}, "args": o.case.args, "rc": o.rc,
                            "probe": pl[0][:600] if pl else None})
    return finish("C16", tier, seed, t0, outs, RULE, extra_viol=extra, extra_signatures=sigs, extra_evaluations=len(outs), extra_bits=bits,
                  extra_samples=samples,
                  required_bits=["cmdline_vs_envlevel_conflicts", "envlevel_vs_default_only", "differential_comparisons", "startup_stopped_with_error",
                                 "argv_cases_positional", "argv_cases_registered", "argv_cases_registered_vm", "argv_cases_allow_unknown"],
                  assumptions=["where the property leaves an order open (two environment-level sources, or --pika:ini and the dedicated option both "
                               "on the command line) any value of the winning level is accepted",
                               "'invalid' is judged for the typed settings whose effect is observed (threads, scheduler, bind, mask, stack sizes); "
                               "plain ini entries are opaque strings to the configuration layer",
                               "fifo and lifo variants of a scheduler are told apart only by the resolved configuration entry, not by behaviour"])
