"""C07 - condition variables never lose a notification."""
import random
import time

from runner import Case, run_cases, finish
from checks.c01 import POLICIES

RULE = ("one case = one runtime incarnation (policy x workers) running rounds of W waiters on one condition variable for a "
        "combination (condition_variable+pika::mutex, condition_variable_any+pika::mutex, condition_variable_any+std::mutex "
        "with plain OS threads); round kinds: notify_all (loop and predicate form), W x notify_one (token protocol), timed waits "
        "notified before the deadline, stop_token waits (also timed); the waiter completing the registration under the user lock "
        "launches the notifier (task or OS thread), which takes the user lock first; distinct = (flavour, configuration, "
        "combo, profile, path-bit signature); non-trivial = blocked waiter / timed blocked waiter / notify hand-off / stop "
        "callback / wake-up found target active observed")
ATTR = r"condition_variable|stop_token|c07_condvar|mutex\.cpp|this_thread\.cpp"
COMBOS = ["cv+mutex", "any+mutex", "any+stdmutex"]


def cases(tier, seed):
    rnd = random.Random(seed * 17 + 7)
    out = []
    n = 0
    reps = 1 if tier == "quick" else 5
    rounds = 400 if tier == "quick" else 1500
    for rep in range(reps):
        for ci, combo in enumerate(COMBOS):
            pols = POLICIES if tier == "thorough" else [POLICIES[(seed + ci * 3 + k * 2 + 1) % 8] for k in range(4)]
            for pi, pol in enumerate(pols):
                w = [2, 4, 1, 8, 16, 3, 6, 12][(pi + ci + rep + seed) % 8]
                n += 1
                prof = ["window", "notify", "light"][(pi + rep + ci) % 3]
                out.append(Case("plain", "c07_condvar",
                                ["--scheduler=" + pol, "--threads=%d" % w, "--combo=" + combo,
                                 "--rounds=%d" % (rounds if combo != "any+stdmutex" else rounds // 3),
                                 "--batch=%d" % (24 if combo != "any+stdmutex" else 8), "--perturb=" + prof,
                                 "--os=%d" % rnd.choice([20, 40]), "--seed=%d" % (seed * 1000 + n)],
                                cls="%s:%s" % (combo, pol), slots=w + 2, timeout=600))
    # timed waits of plain OS threads (own scenario class; see known_findings.json)
    for kind in ("timed_far", "stop_timed"):
        n += 1
        out.append(Case("plain", "c07_condvar",
                        ["--scheduler=local-priority-fifo", "--threads=2", "--combo=any+stdmutex", "--rounds=8", "--batch=4",
                         "--kind=" + kind, "--perturb=light", "--stall=12", "--seed=%d" % (seed * 1000 + n)],
                        cls="os-thread-%s" % kind, slots=3, timeout=200))
    # one notify_one issued at the common deadline of the timed waiters, an untimed waiter queued behind them
    for k in range(4 if tier == "quick" else 24):
        n += 1
        combo = COMBOS[k % 2]
        out.append(Case("plain", "c07_condvar",
                        ["--scheduler=" + POLICIES[(seed + k * 3) % 8], "--threads=%d" % [4, 8, 2, 16][k % 4], "--combo=" + combo,
                         "--rounds=%d" % (1500 if tier == "quick" else 6000), "--batch=12", "--kind=timed_edge", "--perturb=" + ["none", "light"][k % 2],
                         "--seed=%d" % (seed * 1000 + n)], cls="%s:timed_edge" % combo, slots=[4, 8, 2, 16][k % 4] + 1, timeout=600))
    for ci, combo in enumerate(COMBOS[:2]):
        for k in range(1 if tier == "quick" else 4):
            n += 1
            pol = POLICIES[(seed + ci + k * 3) % 8]
            out.append(Case("tsan", "c07_condvar",
                            ["--scheduler=" + pol, "--threads=4", "--combo=" + combo,
                             "--rounds=%d" % (80 if tier == "quick" else 300), "--perturb=window", "--bind=1", "--os=30",
                             "--seed=%d" % (seed * 1000 + n)], cls="%s:tsan" % combo, slots=5, timeout=900))
    return out


def run(tier, seed):
    t0 = time.time()
    outs = run_cases("C07", cases(tier, seed), attribute=ATTR)
    return finish("C07", tier, seed, t0, outs, RULE,
                  required_bits=["blocked_waiter", "timed_blocked_waiter", "notify_one_handoff", "notify_all_handoff",
                                 "stop_callback_ran", "os_waiter", "edge_notify_hit_timed_waiter", "edge_notify_after_all_timed_out"],
                  assumptions=["std::mutex as user lock is used by plain OS threads only; pika::mutex by pika tasks only",
                               "latency of timed waits is not judged (this pika version polls until the deadline)",
                               "a spinlock as user lock of condition_variable_any is not exercised (see DESIGN.md)"])
