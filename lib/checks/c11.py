"""C11 - bulk calls f once per index, then completes once."""
import random
import time

from runner import Case, run_cases, finish
from checks.c01 import POLICIES

RULE = ("one case = one bulk invocation on a running pool: all shapes 0..300, shapes around k*workers*8*2^j +-2, random shapes up to "
        "10^6 (10^7 thorough) with per-index counters, and single very large shapes (2^31-1, 2^31+1, 2^32-1, 2^32+5, ...) with "
        "per-worker count/index-sum; shape types int, unsigned, long, size_t, int64_t, uint64_t; 0/1/3 predecessor values; "
        "predecessor reaching the pool via schedule, transfer_just, schedule(hinted)|then, just|continues_on, or no scheduler "
        "(generic bulk); throwing index sets none/one/every k-th/all; distinct = (flavour, configuration, mode, shape, path-bit "
        "signature); non-trivial = chunks popped by the owner and stolen from the right / throwing case / large shape observed")
ATTR = r"thread_pool_scheduler_bulk\.hpp|algorithms/bulk\.hpp|contiguous_index_queue\.hpp|c11_bulk"
LARGE = [2**31 - 1, 2**31 + 1, 2**32 - 1, 2**32 + 5]


def cases(tier, seed):
    rnd = random.Random(seed * 37 + 11)
    out = []
    n = 0
    big = tier == "thorough"
    wl = [1, 2, 3, 4, 7, 8, 16]
    for mode in ("small", "boundary", "random"):
        pols = POLICIES if big else [POLICIES[(seed + k * 3) % 8] for k in range(3)]
        for pi, pol in enumerate(pols):
            for w in ([wl[(pi + seed) % 7], wl[(pi + seed + 3) % 7]] if not big else wl):
                n += 1
                out.append(Case("plain", "c11_bulk",
                                ["--scheduler=" + pol, "--threads=%d" % w, "--mode=" + mode, "--reps=%d" % (40 if not big else 100),
                                 "--randmax=%d" % (1000000 if not big else 4000000), "--seed=%d" % (seed * 1000 + n)],
                                cls="%s:%s" % (mode, pol), slots=w + 1, timeout=600))
    shapes = LARGE if not big else LARGE + [2**31, 2**32, 2**33 + 7, 3 * 2**31 + 1]
    for si, sh in enumerate(shapes):
        n += 1
        out.append(Case("plain", "c11_bulk",
                        ["--scheduler=" + POLICIES[(seed + si) % 8], "--threads=%d" % (16 if si % 2 == 0 else 8), "--mode=large",
                         "--shape=%d" % sh, "--seed=%d" % (seed * 1000 + n)], cls="large:%s" % ("2^31..2^32" if sh < 2**32 else ">=2^32"),
                        slots=17, timeout=400))
    # the largest value of the shape's own type: the end of the last chunk is one past it (int: 2^31-1, unsigned: 2^32-1)
    for sh, typ in ((2**31 - 1, 0), (2**32 - 1, 1)):
        n += 1
        out.append(Case("plain", "c11_bulk",
                        ["--scheduler=" + POLICIES[(seed + n) % 8], "--threads=%d" % (16 if n % 2 == 0 else 8), "--mode=large", "--shape=%d" % sh, "--type=%d" % typ,
                         "--seed=%d" % (seed * 1000 + n)], cls="large:type-max", slots=17, timeout=400))
    for mode in ("small", "boundary"):
        n += 1
        out.append(Case("asan", "c11_bulk", ["--scheduler=" + POLICIES[(seed + 2) % 8], "--threads=4", "--mode=" + mode, "--bind=1",
                                              "--seed=%d" % (seed * 1000 + n)], cls="%s:asan" % mode, slots=5, timeout=900))
        n += 1
        out.append(Case("tsan", "c11_bulk", ["--scheduler=" + POLICIES[(seed + 4) % 8], "--threads=4", "--mode=" + mode, "--bind=1",
                                              "--seed=%d" % (seed * 1000 + n)], cls="%s:tsan" % mode, slots=5, timeout=900))
    return out


def run(tier, seed):
    t0 = time.time()
    outs = run_cases("C11", cases(tier, seed), attribute=ATTR)
    return finish("C11", tier, seed, t0, outs, RULE,
                  required_bits=["chunk_pop_left", "chunk_steal_pop_right", "throwing_case", "large_shape"],
                  assumptions=["shape types narrower than int do not compile with the pool customisation and are not instantiated",
                               "for shapes > 10^7 the exactly-once oracle is count + index sum (per-worker counters)"])
