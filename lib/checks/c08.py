"""C08 - semaphores conserve permits and release blocked acquirers."""
import random
import time

from runner import Case, run_cases, finish
from checks.c01 import POLICIES

RULE = ("one case = one runtime incarnation (policy x workers) x scenario: conserve/binary (random acquire, try_acquire, timed "
        "acquire, release traffic from tasks and OS threads against a shadow count), blocked (W acquirers on an empty semaphore, "
        "release(n) chunks summing to W from a task or OS thread), timed (exclusive timed acquirer with an in-time release, and "
        "expiry), sliding (wait(upper)/signal(lower) chains); distinct = (flavour, configuration, scenario, path-bit signature); "
        "non-trivial = blocked acquirer / timed blocked acquirer / signal with waiters / wake-up found target active observed")
ATTR = r"counting_semaphore|sliding_semaphore|condition_variable\.cpp|c08_semaphore"
MODES = ["conserve", "binary", "blocked", "timed", "sliding"]


def cases(tier, seed):
    rnd = random.Random(seed * 19 + 8)
    out = []
    n = 0
    reps = 1 if tier == "quick" else 6
    for rep in range(reps):
        for mi, mode in enumerate(MODES):
            pols = POLICIES if tier == "thorough" else [POLICIES[(seed + mi * 3 + k * 2) % 8] for k in range(3)]
            for pi, pol in enumerate(pols):
                w = [4, 1, 8, 2, 16, 3, 6, 12][(pi + mi + rep + seed) % 8]
                n += 1
                args = ["--scheduler=" + pol, "--threads=%d" % w, "--mode=" + mode,
                        "--perturb=" + ("sem" if (pi + rep) % 3 else "light"), "--os=%d" % rnd.choice([0, 25, 50]),
                        "--seed=%d" % (seed * 1000 + n)]
                if mode in ("conserve", "binary"):
                    args += ["--initial=%d" % rnd.choice([1, 2, 5]), "--tasks=%d" % rnd.choice([4, 16, 32]),
                             "--osthreads=%d" % rnd.choice([0, 2, 4]), "--iters=%d" % (400 if tier == "quick" else 1500)]
                elif mode == "blocked":
                    args += ["--rounds=%d" % (600 if tier == "quick" else 3000)]
                elif mode == "timed":
                    args += ["--reps=%d" % (24 if tier == "quick" else 80)]
                else:
                    args += ["--reps=%d" % (30 if tier == "quick" else 150)]
                out.append(Case("plain", "c08_semaphore", args, cls="%s:%s" % (mode, pol), slots=w + 2, timeout=600))
    for mi, mode in enumerate(MODES):
        n += 1
        out.append(Case("tsan", "c08_semaphore",
                        ["--scheduler=" + POLICIES[(seed + mi) % 8], "--threads=4", "--mode=" + mode, "--perturb=sem", "--bind=1",
                         "--iters=100", "--rounds=80", "--reps=8", "--seed=%d" % (seed * 1000 + n)],
                        cls="%s:tsan" % mode, slots=5, timeout=900))
    return out


def run(tier, seed):
    t0 = time.time()
    outs = run_cases("C08", cases(tier, seed), attribute=ATTR)
    return finish("C08", tier, seed, t0, outs, RULE,
                  required_bits=["blocked_acquirer", "timed_blocked_acquirer", "signal_with_waiters", "try_acquire_contended"],
                  assumptions=["the shadow count is raised before release() and lowered after a successful acquire, so it bounds the "
                               "real count from above", "plain OS threads do not use timed acquires (D14, see C07)",
                               "latency of timed acquires is not judged"])
