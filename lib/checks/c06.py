"""C06 - mutexes give mutual exclusion and always hand the lock on."""
import random
import time

from runner import Case, run_cases, finish
from checks.c01 import POLICIES

TYPES = ["mutex", "timed_mutex", "recursive_mutex", "spinlock", "ts_spinlock"]
RULE = ("one case = one runtime incarnation (policy x workers) x lock type x contenders x perturbation profile; contenders mix "
        "lock/try_lock/try_lock_for/try_lock_until/unlock with yields inside the section (suspending locks only) after an API "
        "conformance prologue (misuse reporting); distinct = (flavour, configuration, type, contenders, path-bit signature); "
        "non-trivial = blocked-in-lock / timed wait / hand-off notify / owner migrated inside the section / wake-up found the "
        "target still active / contended try_lock observed")
ATTR = r"mutex\.(cpp|hpp)|recursive_mutex\.hpp|spinlock\.hpp|condition_variable\.cpp|c06_mutex\.cpp"


def cases(tier, seed):
    rnd = random.Random(seed * 13 + 6)
    out = []
    n = 0
    reps = 1 if tier == "quick" else 6
    iters = 600 if tier == "quick" else 3000
    for rep in range(reps):
        for ti, typ in enumerate(TYPES):
            pols = POLICIES if tier == "thorough" else [POLICIES[(seed + ti * 3 + k * 2) % 8] for k in range(4)]
            for pi, pol in enumerate(pols):
                w = [1, 2, 4, 8, 16, 3, 6, 12][(pi + ti + rep + seed) % 8]
                cont = rnd.choice([2, 3, 8, 24, 64])
                if typ in ("spinlock", "ts_spinlock", "recursive_mutex"):
                    cont = min(cont, 24)
                n += 1
                out.append(Case("plain", "c06_mutex",
                                ["--scheduler=" + pol, "--threads=%d" % w, "--type=" + typ, "--contenders=%d" % cont,
                                 "--iters=%d" % (iters if typ != "timed_mutex" else iters // 3),
                                 "--perturb=" + ("handoff" if (pi + rep) % 3 else "light"), "--seed=%d" % (seed * 1000 + n)],
                                cls="%s:%s" % (typ, pol), slots=w + 1, timeout=400))
    # happens-before oracle: the record in the section is plain memory
    for ti, typ in enumerate(TYPES):
        for k in range(1 if tier == "quick" else 4):
            n += 1
            pol = POLICIES[(seed + ti + k * 3) % 8]
            out.append(Case("tsan", "c06_mutex",
                            ["--scheduler=" + pol, "--threads=4", "--type=" + typ, "--contenders=12",
                             "--iters=%d" % (150 if tier == "quick" else 600), "--perturb=handoff", "--bind=1",
                             "--seed=%d" % (seed * 1000 + n)], cls="%s:tsan" % typ, slots=5, timeout=900))
    return out


def run(tier, seed):
    t0 = time.time()
    outs = run_cases("C06", cases(tier, seed), attribute=ATTR)
    return finish("C06", tier, seed, t0, outs, RULE,
                  required_bits=["blocked_in_lock", "timed_wait", "handoff_notify", "owner_migrated_in_section",
                                 "try_lock_contended"],
                  assumptions=["critical sections under spinlocks / the spinlock-based recursive mutex do not yield (usage contract)",
                               "timed waits use short deadlines; interleavings are sampled"])
