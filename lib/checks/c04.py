"""C04 - async_rw_mutex: exclusive writers, grouped readers, request-order grants."""
import random
import time

from runner import Case, run_cases, finish
from checks.c01 import POLICIES

RULE = ("one case = one runtime incarnation (policy x workers) running hundreds of request sequences (2-60, thorough 2-200 requests over "
        "{read, readwrite}) on async_rw_mutex<payload> or async_rw_mutex<void>; all requests of a sequence come from one thread, then "
        "each access sender is started at once / later / from a pool task / from an OS thread, or dropped unstarted; bodies run "
        "inline or after continues_on; wrappers are released at once, held and released on another task / OS thread, or (readers) "
        "copied 1-3 times with the copies released on different threads; the mutex is destroyed before the accesses in half of the "
        "sequences; race cases: 10^6 rounds in which one OS thread releases the only wrapper of an access at the same instant (spin "
        "barrier, swept skew) at which another starts the following access(es) {write; read; read,read; read,write}; distinct = (flavour, configuration, type, path-bit signature); non-trivial = dropped request / start from OS "
        "thread / late start / wrapper copies / release on another thread / early mutex destruction / overlapping readers observed")
ATTR = r"async_rw_mutex\.hpp|c04_rwmutex"


def cases(tier, seed):
    rnd = random.Random(seed * 59 + 4)
    out = []
    n = 0
    big = tier == "thorough"
    for rep in range(1 if not big else 5):
        for typ in ("value", "void"):
            pols = POLICIES if big else [POLICIES[(seed + k * 3 + (typ == "void")) % 8] for k in range(4)]
            for pi, pol in enumerate(pols):
                w = [4, 2, 8, 3, 16, 1, 6, 12][(pi + rep + seed) % 8]
                n += 1
                out.append(Case("plain", "c04_rwmutex",
                                ["--scheduler=" + pol, "--threads=%d" % w, "--type=" + typ, "--sequences=%d" % (600 if not big else 1200),
                                 "--maxlen=%d" % (60 if not big else 120), "--perturb=" + rnd.choice(["light", "none"]),
                                 "--seed=%d" % (seed * 1000 + n)], cls="%s:%s" % (typ, pol), slots=w + 3, timeout=600))
    # release of the last wrapper racing with the start of the following access(es), two aligned OS threads, swept skew
    for k in range(3 if not big else 12):
        n += 1
        out.append(Case("plain", "c04_rwmutex", ["--threads=%d" % [2, 4, 8][k % 3], "--mode=race", "--rounds=%d" % (1000000 if not big else 5000000), "--perturb=none",
                                                  "--seed=%d" % (seed * 1000 + n)], cls="race", slots=4, timeout=600))
    n += 1
    out.append(Case("tsan", "c04_rwmutex", ["--threads=2", "--mode=race", "--rounds=%d" % (60000 if not big else 400000), "--perturb=none", "--bind=1",
                                             "--seed=%d" % (seed * 1000 + n)], cls="race:tsan", slots=4, timeout=900))
    for fl in ("tsan", "asan"):
        for typ in ("value", "void") if big else ("value",):
            n += 1
            out.append(Case(fl, "c04_rwmutex",
                            ["--scheduler=" + POLICIES[(seed + n) % 8], "--threads=4", "--type=" + typ, "--sequences=%d" % (80 if not big else 400),
                             "--maxlen=40", "--bind=1", "--seed=%d" % (seed * 1000 + n)], cls="%s:%s" % (typ, fl), slots=7, timeout=900))
    return out


def run(tier, seed):
    t0 = time.time()
    outs = run_cases("C04", cases(tier, seed), attribute=ATTR)
    return finish("C04", tier, seed, t0, outs, RULE,
                  required_bits=["dropped_unstarted", "started_from_os_thread", "started_later", "read_wrapper_copies",
                                 "released_on_other_thread", "mutex_destroyed_early", "readers_overlapped", "race_release_vs_start"],
                  assumptions=["requests are retrieved from one thread (API contract)", "release stamps are taken just before the wrapper "
                               "is destroyed and grant stamps just after the grant, so an order violation seen in the log is real"])
