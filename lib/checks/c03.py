"""C03 - sender adaptors deliver exactly one, correct completion signal."""
import random
import time

from runner import Case, run_cases, finish
from checks.c01 import POLICIES

RULE = ("dynamic cases: random terms (depth 1-5, thorough 1-8) over just/transfer_just/schedule/then/let_value/let_error/continues_on/"
        "when_all/when_all_vector/split(2-4 consumers)/split_tuple/ensure_started/drop_value/drop_operation_state/require_started/"
        "unpack/bulk built at run time with every node re-erased to unique_any_sender<tracked>, instrumented leaves choosing channel "
        "(value/error/stopped) and timing (inline, pool worker, std::thread), throwing callables; consumed by a recording receiver "
        "that frees its operation state inside the completion call, by sync_wait or by start_detached; a reference interpreter "
        "gives the set of admissible completions; static cases: 16 un-erased shapes x channel x timing; distinct = (flavour, "
        "configuration, mode, profile, path-bit signature); non-trivial = all three consumers / all three leaf timings / stored vs "
        "inline shared-state continuations / error and stopped completions / terms with several admissible outcomes observed")
ATTR = r"execution/algorithms/|any_sender|c03_senders|senders\.hpp"


def cases(tier, seed):
    rnd = random.Random(seed * 61 + 3)
    out = []
    n = 0
    big = tier == "thorough"
    pols = POLICIES if big else [POLICIES[(seed + k * 3) % 8] for k in range(4)]
    for rep in range(1 if not big else 6):
        for pi, pol in enumerate(pols):
            w = [4, 2, 8, 3, 16, 1, 6, 12][(pi + rep + seed) % 8]
            n += 1
            out.append(Case("plain", "c03_senders",
                            ["--scheduler=" + pol, "--threads=%d" % w, "--mode=dynamic", "--terms=%d" % (3000 if not big else 12000),
                             "--depth=%d" % (5 if not big else 8), "--perturb=" + ("ss" if (pi + rep) % 3 else "light"),
                             "--seed=%d" % (seed * 1000 + n)], cls="dynamic:%s" % pol, slots=w + 2, timeout=600))
        n += 1
        out.append(Case("plain", "c03_senders", ["--scheduler=" + pols[rep % len(pols)], "--threads=4", "--mode=static", "--terms=3000",
                                                 "--seed=%d" % (seed * 1000 + n)], cls="static", slots=6, timeout=300))
    for k in range(3 if not big else 12):
        n += 1
        out.append(Case("plain", "c03_senders", ["--scheduler=" + POLICIES[(seed + k * 5) % 8], "--threads=%d" % [4, 8, 2][k % 3], "--mode=concurrent",
                                                 "--terms=%d" % (1500 if not big else 6000), "--seed=%d" % (seed * 1000 + n)],
                        cls="concurrent-consumers", slots=10, timeout=300))
    n += 1
    out.append(Case("asan", "c03_senders", ["--threads=4", "--mode=concurrent", "--terms=300", "--bind=1", "--seed=%d" % (seed * 1000 + n)],
                    cls="concurrent-consumers:asan", slots=8, timeout=600))
    for fl, terms in (("asan", 1200), ("tsan", 600)):
        for mode in ("dynamic", "static"):
            n += 1
            out.append(Case(fl, "c03_senders",
                            ["--scheduler=" + POLICIES[(seed + n) % 8], "--threads=4", "--mode=" + mode,
                             "--terms=%d" % (terms if not big else terms * 4), "--bind=1", "--seed=%d" % (seed * 1000 + n)],
                            cls="%s:%s" % (mode, fl), slots=6, timeout=900))
    return out


def run(tier, seed):
    t0 = time.time()
    outs = run_cases("C03", cases(tier, seed), attribute=ATTR)
    return finish("C03", tier, seed, t0, outs, RULE,
                  required_bits=["consumer_recording_receiver", "consumer_sync_wait", "consumer_start_detached", "leaf_inline", "leaf_on_pool",
                                 "leaf_on_std_thread", "shared_state_continuation_stored", "shared_state_inline_fast", "error_completion",
                                 "stopped_completion", "multi_outcome_term", "concurrent_consumer_rounds"],
                  assumptions=["sync_wait is not put on pipelines that may complete stopped, start_detached only on value-only pipelines "
                               "(pika terminates there by design)", "placement of error/stopped continuations is not judged here"])
