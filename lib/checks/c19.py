"""C19 - suspending and resuming pools or workers never loses work."""
import random
import time

from runner import Case, run_cases, finish
from checks.c01 import POLICIES

RULE = ("one case = one runtime with a worker pool (policy x size, elastic or not) next to the default pool: history mode runs "
        "suspend/resume cycles of single processing units issued from a task of the default pool (with and without tasks blocked "
        "on the worker being suspended, released only after the suspend call returned; work hinted to the suspended worker), "
        "pool-level suspend_direct/resume_direct cycles and pika::suspend/resume cycles from plain OS threads, all concurrent "
        "with an OS-thread submitter and hinted/high-priority submissions; refuse mode checks that unsupported operations "
        "report an error and leave the pool running; distinct = (policy, size, elasticity, mode, profile, path-bit signature); "
        "non-trivial = PU really suspended / work hinted to a suspended worker / blocked task during suspend / pool cycle / "
        "runtime cycle / refusal observed")
ATTR = r"scheduled_thread_pool_impl\.hpp|scheduling_loop\.hpp|scheduler_base\.cpp|thread_pool_base\.cpp|thread_pool_helpers\.cpp|c19_suspend"


def cases(tier, seed):
    rnd = random.Random(seed * 47 + 19)
    out = []
    n = 0
    big = tier == "thorough"
    for rep in range(1 if not big else 4):
        for pol in range(8):
            size = [4, 2, 3, 6, 8, 5, 12, 7][(pol + rep + seed) % 8]
            n += 1
            out.append(Case("plain", "c19_suspend",
                            ["--policy=%d" % pol, "--size=%d" % size, "--elastic=1", "--mode=history", "--cycles=%d" % (300 if not big else 1500),
                             "--perturb=" + ("pu" if (pol + rep) % 3 else "light"), "--seed=%d" % (seed * 1000 + n)],
                            cls="history:%s" % POLICIES[pol], slots=size + 3, timeout=200))
            n += 1
            out.append(Case("plain", "c19_suspend",
                            ["--policy=%d" % pol, "--size=%d" % max(3, size // 2), "--elastic=%d" % (rep % 2), "--mode=refuse",
                             "--seed=%d" % (seed * 1000 + n)], cls="refuse:%s" % POLICIES[pol], slots=8, timeout=300))
    if big:
        for pol in (1, 3, 5):
            n += 1
            # ASan, not TSan: suspending a worker makes the others take over its tasks, i.e. tasks migrate between OS threads,
            # which overflows libtsan's per-OS-thread shadow stack (pika's context switch has no TSan fiber annotations; see
            # DESIGN.md 7.5) - one libtsan crash in the first thorough run, TSan leg dropped as announced in the design
            out.append(Case("asan", "c19_suspend", ["--policy=%d" % pol, "--size=4", "--elastic=1", "--mode=history", "--cycles=60",
                                                     "--seed=%d" % (seed * 1000 + n)], cls="history:asan", slots=8, timeout=900))
    return out


def run(tier, seed):
    t0 = time.time()
    outs = run_cases("C19", cases(tier, seed), attribute=ATTR)
    return finish("C19", tier, seed, t0, outs, RULE,
                  required_bits=["pu_suspended", "hinted_to_suspended_worker", "blocked_task_during_suspend", "pool_cycle", "runtime_cycle", "refusal"],
                  assumptions=["worker 0 of the pool is never suspended individually (at least one worker keeps running)",
                               "suspend calls are issued from tasks of another pool or from OS threads, as the property states"])
