"""C14 - stop_token: one winning stop request, each callback exactly once."""
import random
import time

from runner import Case, run_cases, finish
from checks.c01 import POLICIES

RULE = ("model cases: random sequential histories (2-200 ops) of stop_source/stop_token construct/copy/move/assign/self-assign/"
        "swap/destroy/get_token/request_stop/compare over 6+6 object slots, every query compared with a reference model after "
        "every op; race cases: rounds with 1-12 racing request_stop() callers and 0-48 stop_callbacks registered and destroyed "
        "concurrently from pika tasks and plain OS threads, slow callbacks, destruction of other callbacks / of itself / "
        "registration of new callbacks from inside a callback; distinct = (flavour, configuration, mode, profile, path-bit "
        "signature); non-trivial = destructor overlapped execution / in-callback destroy / self destroy / in-callback "
        "registration / constructor-time callback / remove-after-unlink path observed")
ATTR = r"stop_token\.(hpp|cpp)|jthread\.hpp|c14_stop"


def cases(tier, seed):
    rnd = random.Random(seed * 31 + 14)
    out = []
    n = 0
    big = tier == "thorough"
    for k in range(4 if not big else 16):
        n += 1
        out.append(Case("plain", "c14_stop", ["--mode=model", "--histories=%d" % (5000 if not big else 40000),
                                              "--seed=%d" % (seed * 1000 + n)], cls="model", slots=1, timeout=600))
    n += 1
    out.append(Case("asan", "c14_stop", ["--mode=model", "--histories=%d" % (1500 if not big else 10000), "--seed=%d" % (seed * 1000 + n)],
                    cls="model:asan", slots=1, timeout=900))
    reps = 1 if not big else 5
    for rep in range(reps):
        for pi, pol in enumerate(POLICIES):
            w = [4, 1, 8, 2, 16, 3, 6, 12][(pi + rep + seed) % 8]
            n += 1
            out.append(Case("plain", "c14_stop",
                            ["--mode=race", "--scheduler=" + pol, "--threads=%d" % w, "--rounds=%d" % (1500 if not big else 8000),
                             "--perturb=" + ("stop" if (pi + rep) % 3 else "light"), "--os=%d" % rnd.choice([0, 30, 60, 100]),
                             "--seed=%d" % (seed * 1000 + n)], cls="race:%s" % pol, slots=w + 3, timeout=600))
    for fl in ("tsan", "asan"):
        for k in range(1 if not big else 4):
            n += 1
            out.append(Case(fl, "c14_stop",
                            ["--mode=race", "--scheduler=" + POLICIES[(seed + k * 3) % 8], "--threads=4", "--rounds=250",
                             "--perturb=stop", "--bind=1", "--os=%d" % (30 if fl == "tsan" else 50), "--seed=%d" % (seed * 1000 + n)],
                            cls="race:%s" % fl, slots=6, timeout=900))
    return out


def run(tier, seed):
    t0 = time.time()
    outs = run_cases("C14", cases(tier, seed), attribute=ATTR)
    return finish("C14", tier, seed, t0, outs, RULE,
                  required_bits=["dtor_overlapped_execution", "destroy_other_from_callback", "self_destroy_from_callback",
                                 "register_from_callback", "callback_in_constructor", "remove_after_unlink_path", "model_history"],
                  assumptions=["the 'alive' word of a callback is cleared by its owner right after the destructor returned; a callback "
                               "observing it cleared ran after (or across) its destructor", "interleavings are sampled"])
