"""C20 - MPI request senders complete exactly once, after the transfer; wait()/shutdown do not return with requests in flight."""
import random
import time

from runner import Case, run_cases, finish
from checks.c01 import POLICIES

RULE = ("one case = one process on the MPI-enabled build (single rank, MPI_THREAD_MULTIPLE): 25-200 rounds of 1-8 self-addressed "
        "Isend/Irecv pairs (0 B - 1 MiB) through transform_mpi, receive and send started from different tasks with seeded "
        "delays, slow continuations on the operation that finishes last, a send to an invalid rank every 5th round, pika::wait() "
        "+ ledger after every round, stop_polling/start_polling every 7th round; all 32 completion modes x {polling on the default "
        "pool, forced dedicated pool} x worker counts; variants: burst (48-100 receives pending together - the poller tests its "
        "vector in chunks of 32 - sends following one at a time), shutdown (finalize/stop with requests in flight), "
        "MPI_ERRORS_RETURN without pika's handler; distinct = (configuration, mode, pool, variant, path-bit signature); non-trivial "
        "= callbacks run by a worker other than the one that tested the request, dedicated pool, shutdown variant or error "
        "operations observed")
ATTR = r"mpi_polling|transform_mpi|mpi_helpers|c20_mpi"


def cases(tier, seed):
    rnd = random.Random(seed * 41 + 20)
    out = []
    big = tier == "thorough"
    n = 0
    reps = 1 if not big else 6
    for rep in range(reps):
        for mode in range(32):
            for pool in (0, 1):
                n += 1
                w = rnd.choice([2, 3, 4, 8]) if not pool else rnd.choice([2, 4, 8])
                pol = "local-priority-fifo" if rnd.random() < 0.6 else rnd.choice(["local", "static", "abp-priority-fifo", "shared-priority", "local-priority-lifo"])
                args = ["--scheduler=" + pol, "--threads=%d" % w, "--cmode=%d" % mode, "--pool=%d" % pool, "--rounds=%d" % (25 if not big else 120),
                        "--pairs=%d" % rnd.choice([4, 8, 12]), "--seed=%d" % (seed * 1000 + n)]
                if rnd.random() < 0.25:
                    args.append("--perturb=off")
                out.append(Case("mpi", "c20_mpi", args, cls="mode%d:pool%d" % (mode, pool), slots=w + 1, timeout=300))
        # many requests pending at once (the poller tests its vector in chunks of 32): receives first, sends one at a time
        for mode in ([30, 24, 8, 16, 27, 14, 21, 31] if not big else range(8, 32)):
            n += 1
            w = rnd.choice([4, 8])
            out.append(Case("mpi", "c20_mpi", ["--threads=%d" % w, "--cmode=%d" % mode, "--rounds=%d" % (6 if not big else 20), "--pairs=%d" % rnd.choice([48, 72, 100]), "--burst=1",
                                               "--pool=0", "--seed=%d" % (seed * 1000 + n)], cls="mode%d:burst" % mode, slots=w + 1, timeout=300))
        # a single worker: polling and continuations share it
        for mode in rnd.sample(range(32), 6 if not big else 16):
            n += 1
            out.append(Case("mpi", "c20_mpi", ["--threads=1", "--cmode=%d" % mode, "--rounds=%d" % (15 if not big else 60), "--seed=%d" % (seed * 1000 + n)],
                            cls="mode%d:single-worker" % mode, slots=2, timeout=300))
        # runtime shutdown with requests in flight
        for mode in ([30, 26, 8, 16, 24, 0, 31, 19] if not big else range(32)):
            n += 1
            w = rnd.choice([2, 4, 8])
            out.append(Case("mpi", "c20_mpi", ["--threads=%d" % w, "--cmode=%d" % mode, "--rounds=%d" % rnd.choice([3, 6, 10]), "--shutdown=1", "--pool=%d" % (n % 2),
                                               "--seed=%d" % (seed * 1000 + n)], cls="mode%d:shutdown" % mode, slots=w + 1, timeout=300))
        # the MPI call returns its error code (MPI_ERRORS_RETURN), pika's throwing handler is not installed
        for mode in ([30, 8, 16, 0, 25] if not big else range(0, 32, 2)):
            n += 1
            out.append(Case("mpi", "c20_mpi", ["--threads=4", "--cmode=%d" % mode, "--rounds=12", "--errors-return=1", "--err-every=3", "--seed=%d" % (seed * 1000 + n)],
                            cls="errors-return", slots=5, timeout=300))
    return out


def run(tier, seed):
    t0 = time.time()
    outs = run_cases("C20", cases(tier, seed), attribute=ATTR)
    return finish("C20", tier, seed, t0, outs, RULE,
                  required_bits=["poller_used", "callback_by_other_worker", "error_operations", "polling_restarted", "shutdown_with_requests_in_flight",
                                 "dedicated_pool", "more_than_32_requests_pending"],
                  assumptions=["single rank: every transfer is self-addressed, so the network path of the MPI library is not exercised",
                               "the MPI library itself (Open MPI) is trusted to report completion correctly; it is not sanitizer-instrumented, so "
                               "this property has no TSan/ASan leg",
                               "mpix_continuation modes (32-39) need an Open MPI extension that is not in this image"])
