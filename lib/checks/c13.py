"""C13 - pika::thread and jthread: join waits for completion, always returns."""
import random
import time

from runner import Case, run_cases, finish
from checks.c01 import POLICIES

RULE = ("one case = one runtime incarnation (policy x workers) x mode: join (thread bodies: immediate, yielding, spinning, blocked "
        "until released by the joiner, spawning and joining grandchildren; join issued immediately / after yields / after the body "
        "ended / after a spin; moved handles; slow-destructor arguments widening the exit-callback gap; double join, join after "
        "detach, self join), jthread (destructor must request stop and join), interrupt (request before/inside/after a "
        "disable_interruption scope, delivery location recorded by an unwinding probe, bystander threads), interrupt-yield (target "
        "sits in this_thread::yield()); distinct = (flavour, configuration, mode, profile, path-bit signature); non-trivial = join "
        "suspended / join callback refused / wake-up found joiner active / grandchildren / interrupt delivered / refused / pending "
        "across a disabled scope observed")
ATTR = r"threading/src/thread\.cpp|thread\.hpp|jthread\.hpp|thread_data|thread_helpers\.cpp|c13_thread"
MODES = ["join", "jthread", "interrupt", "interrupt-yield"]


def cases(tier, seed):
    rnd = random.Random(seed * 29 + 13)
    out = []
    n = 0
    reps = 1 if tier == "quick" else 5
    for rep in range(reps):
        for mi, mode in enumerate(MODES):
            pols = POLICIES if (tier == "thorough" or mode == "join") else [POLICIES[(seed + mi * 3 + k * 2) % 8] for k in range(3)]
            for pi, pol in enumerate(pols):
                w = [4, 1, 8, 2, 16, 3, 6, 12][(pi + mi + rep + seed) % 8]
                if mode.startswith("interrupt") and w == 1:
                    w = 2
                n += 1
                rounds = {"join": 4000, "jthread": 2000, "interrupt": 1500, "interrupt-yield": 300}[mode] * (4 if tier == "thorough" else 1)
                out.append(Case("plain", "c13_thread",
                                ["--scheduler=" + pol, "--threads=%d" % w, "--mode=" + mode, "--rounds=%d" % rounds,
                                 # interrupt-yield contains a task that sits in yield() by design; several of them can starve
                                 # each other's requesters on the non-stealing policies (per-producer "fifo" queues), so one driver
                                 "--drivers=%d" % (1 if mode == "interrupt-yield" else rnd.choice([2, 8, 16])), "--perturb=" + ("join" if (pi + rep) % 3 else "light"),
                                 "--seed=%d" % (seed * 1000 + n)], cls="%s:%s" % (mode, pol), slots=w + 1, timeout=600))
    for mi, mode in enumerate(MODES[:3]):
        n += 1
        out.append(Case("tsan", "c13_thread",
                        ["--scheduler=" + POLICIES[(seed + mi * 2) % 7], "--threads=4", "--mode=" + mode, "--rounds=400",
                         "--perturb=join", "--bind=1", "--seed=%d" % (seed * 1000 + n)], cls="%s:tsan" % mode, slots=5, timeout=900))
    return out


def run(tier, seed):
    t0 = time.time()
    outs = run_cases("C13", cases(tier, seed), attribute=ATTR)
    return finish("C13", tier, seed, t0, outs, RULE,
                  required_bits=["join_suspended", "join_callback_refused", "join_wakeup_found_joiner_active", "grandchildren",
                                 "interrupt_delivered", "interrupt_not_delivered", "interrupt_refused_while_disabled",
                                 "interrupt_pending_across_disabled_scope", "jthread", "interrupt_then_more_interruption_points",
                                 "interrupted_thread_owns_jthread"],
                  assumptions=["pika refuses interrupt() while the target has interruption disabled (thread_not_interruptable) - that "
                               "counts as 'not delivered'", "one joiner per thread handle (public API)"])
