"""C12 - a task's context survives suspension, migration and recycling."""
import random
import time

from runner import Case, run_cases, finish
from checks.c01 import POLICIES

RULE = ("one case = one runtime incarnation (policy x workers x configured stack sizes x guard pages) running thousands of tasks of "
        "the four stack classes that check at entry: clean start (no inherited interruption request, enabled interruption, zero "
        "thread data), configured stack size, >=90% of it available, 85% touchable, range disjoint from every live task's; then "
        "callee-saved registers rbx/rbp/r12-r15 through an asm stub across yields, id-derived canaries at every frame of a recursion "
        "with yields/real suspensions at a random depth, an exit callback per logical task (exactly once), while a third of the "
        "tasks pollute their thread object on the way out (thread data, undelivered interruption requests incl. late interrupts); "
        "mode fp checks the rounding mode across yields; distinct = (flavour, configuration, mode, path-bit signature); "
        "non-trivial = migration across a yield / recycled thread object / polluting predecessor / real suspension / steal observed")
ATTR = r"coroutines/|thread_data|thread_queue\.hpp|runtime_configuration\.cpp|c12_context"


def cases(tier, seed):
    rnd = random.Random(seed * 43 + 12)
    out = []
    n = 0
    big = tier == "thorough"
    sizes = [{}, {"small": 0xc000, "medium": 0x30000}, {"small": 0x8000, "large": 0x300000}, {"small": 0x10000, "medium": 0x40000, "huge": 0x2000000},
             {"medium": 0x28000}]
    pols = POLICIES if big else [POLICIES[(seed + k * 3) % 8] for k in range(5)]
    for rep in range(1 if not big else 4):
        for pi, pol in enumerate(pols):
            w = [4, 2, 8, 3, 16, 1, 6, 12][(pi + rep + seed) % 8]
            sz = sizes[(pi + rep + seed) % len(sizes)]
            n += 1
            args = ["--scheduler=" + pol, "--threads=%d" % w, "--mode=context", "--tasks=%d" % (8000 if not big else 40000),
                    "--guard=%d" % ((pi + rep) % 2), "--perturb=" + rnd.choice(["light", "none"]), "--seed=%d" % (seed * 1000 + n)]
            args += ["--%s=0x%x" % (k, v) for k, v in sz.items()]
            out.append(Case("plain", "c12_context", args, cls="context:%s" % pol, slots=w + 1, timeout=600))
    n += 1
    out.append(Case("plain", "c12_context", ["--scheduler=" + POLICIES[seed % 8], "--threads=4", "--mode=fp", "--tasks=4000",
                                              "--seed=%d" % (seed * 1000 + n)], cls="fp", slots=5, timeout=300))
    for fl in ("asan", "debug") if big else ("asan",):
        n += 1
        out.append(Case(fl, "c12_context", ["--scheduler=" + POLICIES[(seed + 1) % 8], "--threads=4", "--mode=context", "--tasks=1500",
                                             "--bind=1", "--seed=%d" % (seed * 1000 + n)], cls="context:" + fl, slots=5, timeout=900))
    return out


def run(tier, seed):
    t0 = time.time()
    outs = run_cases("C12", cases(tier, seed), attribute=ATTR)
    return finish("C12", tier, seed, t0, outs, RULE,
                  required_bits=["migration_across_yield", "recycled_thread_object", "polluting_predecessor", "real_suspension", "steal", "fp"],
                  assumptions=["the ASan flavour disables thread/stack recycling (pika's own choice), so the clean-start oracle is decided "
                               "on the plain flavour", "rbp is used as a general callee-saved register by the stub"])
