#!/usr/bin/env python3
"""Regenerates /verif/MANIFEST.json from the table below (single source of truth for claimed checks)."""
import json
import os
import subprocess

VERIF = os.path.dirname(os.path.dirname(os.path.abspath(__file__)))

CHECKS = {
    "C01": dict(
        technique="runtime monitoring: task ledger + hooked single-runner monitor + queue conservation counters, "
                  "seeded schedule perturbation; TSan/ASan/assert builds as extra oracles",
        text="Exploration: seeded random task programs on the real runtime over 8 policies x worker counts x "
             "stealing modes; every task's body is counted (exactly once), a monitor on the scheduling-loop hooks "
             "detects two workers inside one thread object, queue push/pop and staged/converted counts must balance at "
             "quiescence. Held on the executions observed (millions of task phases, steals, recycles per run).",
        note="Trusts the hook placement (before/after the coroutine call) and the harness ledger; interleavings are "
             "sampled with OS-level delays at hook points, not enumerated; 48-bit state tag wrap-around out of reach. Second-round seeded change in the shared-priority holder needed the sustained class (16 workers, 600000 short tasks).",
        ref="DESIGN.md section 2, C01"),
    "C02": dict(
        technique="runtime monitoring: one-shot waiter/waker ledger + state-based quiescence watchdog + single-runner monitor; "
                  "hook-point delays widen the resume-before-suspend windows; TSan as extra oracle",
        text="Exploration: one-shot waiter/waker pairs over raw agent suspend/resume (one and two wakers), detail::condition_variable, "
             "counting_semaphore, latch, pika::mutex and thread::join, wakers on tasks and plain OS threads, 8 policies x worker counts, "
             "four perturbation profiles. A wake-up issued after registration must resume the waiter; a quiescent runtime with an "
             "issued wake-up outstanding is reported with the pair as witness. Coverage counters prove the windows were hit "
             "(target still active, helper retry, helper abort on tag change).",
        note="Safety reading of 'no lost wake-up' decided on observed runs; wakers depend only on the registration flag; interleavings sampled.",
        ref="DESIGN.md section 2, C02"),
    "C06": dict(
        technique="runtime monitoring: occupancy/owner monitor, plain multi-word record (torn/stale detection, TSan for happens-before), "
                  "progress ledger + quiescence watchdog, API conformance prologue for misuse reporting",
        text="Exploration: 2-64 contenders on pika::mutex, timed_mutex, recursive mutex and both spinlocks mixing lock/try_lock/"
             "try_lock_for/try_lock_until/unlock with yields inside the section; exclusion, visibility, hand-off (no lost unlock) and "
             "truthful try_lock results are checked on every section; misuse (relock, foreign unlock) must be reported and leave the lock intact.",
        note="Sections under spinlocks do not yield (usage contract); timed waits use short deadlines; interleavings sampled.",
        ref="DESIGN.md section 2, C06"),
    "C07": dict(
        technique="runtime monitoring: generation/token protocol rounds with registration under the user lock, ledger + quiescence/stall "
                  "watchdog, lock-ownership and payload visibility checks, TSan as extra oracle",
        text="Exploration: rounds of 1-24 waiters on condition_variable / condition_variable_any with pika::mutex (tasks) and std::mutex "
             "(plain OS threads): notify_all, W x notify_one, timed waits notified before the deadline, stop_token waits. The notifier "
             "is launched by the last registrant and takes the user lock first, so every registered waiter must be woken.",
        note="Latency of timed waits not judged; lock types limited to pika::mutex and std::mutex; D14 (timed wait on a plain OS "
             "thread deadlocks the notifier) is a listed known finding. Round kind timed_edge: one notify_one at the common deadline of 2-8 timed waiters with an untimed waiter behind them.",
        ref="DESIGN.md section 2, C07"),
    "C08": dict(
        technique="runtime monitoring: shadow permit count (raised before release, lowered after acquire), blocked-acquirer rounds with "
                  "quiescence watchdog, exclusive timed-acquire scenario, sliding-window shadow bound; TSan as extra oracle",
        text="Exploration: counting/binary semaphores under random acquire/try_acquire/timed/release(n) traffic from tasks and OS threads "
             "(conservation, final count), W blocked acquirers released by release(n) chunks (all must proceed, nothing left over), "
             "exclusive timed acquire with an in-time release (must be true) and expiry (false, count untouched), sliding_semaphore "
             "wait/signal chains (window bound, progress).",
        note="Shadow bounds the real count from above, so a negative shadow is a real over-acquisition; OS threads avoid timed acquires (D14).",
        ref="DESIGN.md section 2, C08"),
    "C09": dict(
        technique="runtime monitoring: shadow arrival counters per latch / barrier phase, completion-function counter, plain per-phase cells "
                  "(TSan), quiescence watchdog for stuck waiters; ASan for latch lifetime",
        text="Exploration: latch rounds with mixed count_down(k)/arrive_and_wait(k)/wait()/late waiters on tasks and OS threads, barrier "
             "cases with up to 40 participants, 200 phases, drops and split arrive/wait, event with current and future waiters, call_once "
             "with throwing attempts; departures must observe complete arrivals, completion exactly once per phase, no stuck waiter.",
        note="Shadow counters move before the real arrival, so an early release observed through them is real; interleavings sampled.",
        ref="DESIGN.md section 2, C09"),
    "C13": dict(
        technique="runtime monitoring: body-finished flags checked at join()/destructor return, handle-state and misuse conformance, "
                  "unwinding probe recording where an interruption was delivered, quiescence/stall watchdog; TSan as extra oracle",
        text="Exploration: thousands of pika::thread create/join rounds per case with all join-vs-termination timings (incl. the "
             "exit-callback gap widened by slow-destructor arguments and hook delays), moved handles, grandchildren, double/self/"
             "post-detach joins, jthread destructor semantics, interruption requested before/inside/after disable_interruption scopes "
             "with bystanders, and interruption of a thread sitting in yield().",
        note="pika refuses interrupt() while the target disabled interruption (counts as not delivered); D12 (shared-priority handles "
             "not joinable) is a listed known finding; D9 fixed.",
        ref="DESIGN.md section 2, C13"),
    "C14": dict(
        technique="runtime monitoring: model-based sequential histories (reference model of states/source counts) and concurrent rounds "
                  "with winner count, per-callback run counters, 'alive' word cleared after the destructor, executing flag; "
                  "TSan/ASan as extra oracles",
        text="Exploration: tens of thousands of random copy/move/assign/swap/destroy/request_stop histories compared query by query with a "
             "30-line model (stop_possible/stop_requested/request_stop result), and rounds with racing request_stop callers and callbacks "
             "registered/destroyed from tasks and OS threads, incl. destroying other callbacks or itself, or registering new ones, from "
             "inside a callback: exactly one winner, each live callback exactly once, never after (or across) its destructor.",
        note="D4, D6, D11, D15 were found by this check and fixed (known_findings.json); interleavings sampled.",
        ref="DESIGN.md section 2, C14"),
    "C17": dict(
        technique="runtime monitoring: unique-id exactly-once ledger with quiescent drain, reference-model comparison for sequential order; "
                  "ASan for node recycling",
        text="Exploration: thousands of short histories per run on contiguous_index_queue, the lock-free deque, the four lockfree_*_backends "
             "and ConcurrentQueue with 2-16 plain threads (owner ping-pong for node recycling, thieves on either end), each element "
             "must be taken at most once, exactly once after the drain, nothing invented, pop succeeds on a non-empty quiescent "
             "container; sequential per-end order against std::deque / interval models.",
        note="Not a linearizability check. D16 (deque-based containers with >=2 concurrent pushers lose/duplicate/crash) is a listed known "
             "finding, keyed per container and operation mix; single-pusher mixes stay strictly judged.",
        ref="DESIGN.md section 2, C17"),
    "C11": dict(
        technique="runtime monitoring: per-index call counters / per-worker count+index-sum for huge shapes, payload equality in every call, "
                  "continuation ledger (signals, calls returned at signal time), exception identity; ASan/TSan as extra oracles",
        text="Exploration: thousands of bulk invocations per run over all small shapes, chunk-size boundaries, random shapes, six integral "
             "shape types, 0/1/3 predecessor values, five ways for the predecessor to reach the pool, throwing index sets, plus single "
             "shapes beyond 2^31 and 2^32; hook delays inside the index queue's load/CAS window.",
        note="D3 (32-bit chunk arithmetic) was found here and fixed; shape types narrower than int do not compile and are not judged. D24 (last chunk skipped for the largest value of the shape type) found by a fresh seed and fixed; type-max cases are deterministic now.",
        ref="DESIGN.md section 2, C11"),
    "C10": dict(
        technique="runtime monitoring: every callable records pool/worker/task identity/OS thread in every phase and is compared with the "
                  "placement denoted by the run-time generated pipeline; submitter-inlining marker; TSan/ASan as extra oracles",
        text="Exploration: random pool layouts (1-4 pools, mixed policies, unaligned offsets) and thousands of random multi-hop pipelines "
             "per case with hints, priorities, yields and real suspensions woken from other pools; static+hint+normal priority tasks must "
             "stay on the hinted worker in every phase, std_thread_scheduler work must not be a pika task.",
        note="Value channel only; the machine has one socket (16 PUs), layouts vary sizes/offsets/policies, not NUMA.",
        ref="DESIGN.md section 2, C10"),
    "C12": dict(
        technique="runtime monitoring: frame canaries, asm stub for callee-saved registers, stack-range registry, clean-start assertions on "
                  "recycled thread objects, exit-callback ledger; ASan and Debug-assert flavours as extra oracles",
        text="Exploration: tens of thousands of tasks per run over four stack classes with non-default configured sizes and guard pages on/off; "
             "canaries and registers are checked across yields, real suspensions and migrations; recycled thread objects must start clean "
             "after polluting predecessors (thread data, undelivered or late interruption requests, exit callbacks).",
        note="D5 (FP control word not part of the context) is a listed known finding decided by a separate fp mode; recycling is only live in "
             "the plain/TSan flavours.",
        ref="DESIGN.md section 2, C12"),
    "C19": dict(
        technique="runtime monitoring: task ledger, suspended-interval mask checked inside every task body, active-worker count, "
                  "cycle-progress watchdog for calls that do not return; hook delays in the sleeping/notify window",
        text="Exploration: per case hundreds of suspend/resume cycles of processing units (with tasks blocked on the suspended worker and "
             "work hinted to it), of the whole pool and of the runtime, concurrent with OS-thread and task submitters, on all 8 policies "
             "and pool sizes 2-12; refused operations (no elasticity) must report an error and leave every worker running.",
        note="D7 found here and fixed. Worker 0 of the pool is never suspended individually.",
        ref="DESIGN.md section 2, C19"),
    "C05": dict(
        technique="runtime monitoring: per-group spawned/exited counters read immediately after every life-cycle call, suspended-interval "
                  "flag checked inside task bodies, per-incarnation configuration probes, in-process call watchdog; TSan/ASan extra",
        text="Exploration: per run 40 processes x 3-6 runtime incarnations with random policy/worker count/stack size, random histories of "
             "submit / external submitter / wait / suspend+submit+resume / finalize (inside, outside, from a task) / stop; hook delays on "
             "the activity counter, the wait predicate and the worker sleep window.",
        note="Life-cycle calls come from the main OS thread; nothing is submitted from outside after finalize(); ASan runs use one "
             "incarnation (tool false alarm on remapped task stacks).",
        ref="DESIGN.md section 2, C05"),
    "C04": dict(
        technique="runtime monitoring: online occupancy counters, stamped grant/release log checked against the request-group order, "
                  "version/payload checks in every access and wrapper copy, grant-count ledger, payload destructor ledger, "
                  "quiescence watchdog for never-granted accesses; TSan/ASan as extra oracles",
        text="Exploration: thousands of random request sequences per run on async_rw_mutex<T> and <void> with every start placement "
             "(now, later, pool task, OS thread, dropped), wrapper copies and releases on other threads, early mutex destruction.",
        note="Requests are retrieved from one thread as the API requires; interleavings sampled (no hooks inside async_rw_mutex). Race mode: 10^6 rounds per case of release-vs-start between two aligned OS threads.",
        ref="DESIGN.md section 2, C04"),
    "C03": dict(
        technique="runtime monitoring: reference interpreter over run-time generated sender terms (set of admissible completions), "
                  "recording receiver that frees its operation state inside the completion call, tracked-value instance ledger, "
                  "concurrent-consumer rounds; ASan+UBSan and TSan as extra oracles",
        text="Exploration: per run ~18000 random pipelines (every adaptor named by the property, three leaf channels x three completion "
             "timings, throwing callables, three kinds of terminal consumer) compared with the reference interpreter, 16 un-erased "
             "static shapes x channel x timing, and thousands of rounds starting 2-4 consumers of one split/split_tuple at the same "
             "instant from different threads; hook delays in the shared-state done/add-continuation window.",
        note="D2 (stopped lost in split/split_tuple/when_all_vector) and D17 (split_tuple shared state freed under its predecessor) "
             "were found here and fixed. sync_wait/start_detached are only used where pika defines their behaviour. Static shapes 16-19 put drop_operation_state behind adaptors that keep the error in their own operation state.",
        ref="DESIGN.md section 2, C03"),
    "C18": dict(
        technique="runtime monitoring: reference-model comparison of random wrapper histories (logical objects with per-copy call state), "
                  "erased vs un-erased completion records side by side, callable/value instance ledgers; ASan+UBSan as extra oracle",
        text="Exploration: per run ~430000 operations on function/unique_function slots (callables straddling the 24-byte inline "
             "buffer, copyable and move-only, throwing, empty use), ~150000 on any_sender/unique_any_sender slots, 9000 pipelines run "
             "un-erased and through both wrappers (and an independent copy), plus the not-trivially-relocatable callable probe.",
        note="D8 (inline callables relocated with memcpy) is a listed known finding decided by the selfref case; instance ledgers are "
             "keyed by logical id because pika relocates inline callables bytewise by design.",
        ref="DESIGN.md section 2, C18"),
    "C15": dict(
        technique="runtime monitoring: configuration sweep of the real runtime start-up (pika::init) under synthetic hwloc topologies "
                  "and real taskset masks; in-runtime probe of per-worker PU masks, pool membership and sched_getaffinity judged by the "
                  "property statement",
        text="Exploration: thousands of starts of the real runtime over topology (<=4 sockets x <=16 cores x <=4 PUs) x process mask "
             "(full, contiguous, holes, one PU per core, one socket, partial cores) x thread count (numbers, cores, all, one too many) x "
             "bind mode x extra resource-partitioner pools; every worker must own exactly one PU of the mask, no PU twice, worker "
             "count and pool membership as requested; on the real machine the OS affinity of each worker is read back under taskset.",
        note="Under HWLOC_SYNTHETIC the OS bind call is refused by hwloc, so the computed mapping is judged there and the OS-level "
             "affinity only on this machine's one-socket 16-PU topology. bind=none oversubscription and satisfiable requests pika "
             "rejects are recorded, not judged.",
        ref="DESIGN.md section 2, C15"),
    "C16": dict(
        technique="runtime monitoring: configuration-source sweep of the real start-up (pika::init) with an in-runtime probe (worker count, "
                  "scheduler, per-worker PU masks, configured and measured/touched stack of every class, config entries, argv of the entry "
                  "function); reference resolver + differential comparison against a canonical single-source run",
        text="Exploration: ~1400 (quick) / ~30000 (thorough) starts per run: every setting gets distinct values through a random subset of "
             "{environment variable, PIKA_COMMANDLINE_OPTIONS as option or as --pika:ini, --pika:ini, dedicated option}, shuffled, on the real "
             "and three synthetic topologies; one invalid value / unknown option per invalid case through every source (must stop start-up "
             "before the entry function); positional, registered and unknown application arguments interleaved with pika options.",
        note="Where the statement leaves an order open (two environment-level sources; --pika:ini and the dedicated option both on the command "
             "line) any value of the winning level is accepted. D10 fixed; D18 (PIKA_COMMANDLINE_OPTIONS entries not overridden by the command "
             "line), D19 (application arguments with backslash/quote/$ mangled), D20 (bind=none oversubscription silently clamped) and D21 "
             "(invalid small stack size hangs under shared-priority) are listed known findings keyed by input class.",
        ref="DESIGN.md section 2, C16"),
    "C20": dict(
        technique="runtime monitoring: per-operation signal counters on value and error channel, full payload comparison at continuation "
                  "entry, ledger after pika::wait()/pika::stop(), hook-side shadow of requests handed to the poller vs callbacks finished; "
                  "seeded delays at the MPI polling hook points",
        text="Exploration: MPI-enabled build of the real library, single rank: all 32 completion modes x {default-pool polling, forced "
             "dedicated pool} x worker counts, rounds of self-addressed Isend/Irecv pairs (0 B-1 MiB) started from different tasks, slow "
             "continuations, error operations, balanced stop/start_polling cycles, shutdown with requests in flight, MPI_ERRORS_RETURN "
             "variant. Coverage counters show how many requests went through the poller and how many callbacks were run by a worker "
             "other than the one that tested the request.",
        note="Self-addressed transfers only (one rank); Open MPI is uninstrumented, so no sanitizer leg; mpix continuation modes are not "
             "available. D22 (second completion after an MPI call returned an error code) was found here and fixed. D23 (yield_while modes on the static scheduler never complete) is a listed known finding; burst rounds keep 48-100 requests pending.",
        ref="DESIGN.md section 2, C20"),
}

NOT_YET = "not claimed yet: harness under construction in this session (see DESIGN.md section 2)"


def main():
    props = [json.loads(l)["id"] for l in open(os.path.join(VERIF, "properties.jsonl"))]
    try:
        commits = subprocess.run(["git", "-C", "/repo", "log", "--format=%H %s"], capture_output=True, text=True).stdout
        hook_commits = [l.split()[0] for l in commits.splitlines() if " verif hooks:" in l]
    except OSError:
        hook_commits = []
    checks = []
    for pid in props:
        if pid not in CHECKS:
            continue
        c = CHECKS[pid]
        checks.append({
            "property_id": pid,
            "quick_cmd": "bin/check %s --tier quick" % pid,
            "thorough_cmd": "bin/check %s --tier thorough" % pid,
            "evidence_file": "/verif/evidence/%s.json" % pid,
            "replay_cmd_template": "bin/check replay {path}",
            "engine": "runtime-monitor",
            "level_claimed": {"category": "exploration", "text": c["text"], "design_ref": c["ref"]},
            "level_note": c["note"],
            "technique": c["technique"],
        })
    na = [{"property_id": p, "reason": NA.get(p, NOT_YET)} for p in props if p not in CHECKS]
    m = {
        "version": 1,
        "setup_cmd": "bin/setup",
        "hooks": {
            "guard": "PIKA_VERIF_HOOKS",
            "enable": "lib/build.py configures every flavour with -DCMAKE_CXX_FLAGS=-DPIKA_VERIF_HOOKS (libpika and "
                      "harnesses alike); hooks call pika::verif::handler, installed by the harness",
            "baseline_off_cmd": "bin/baseline_off",
            "source_commits": hook_commits,
            "add_only": True,
        },
        "engines": [{
            "name": "runtime-monitor", "path": "bin/check",
            "serves_properties": [c["property_id"] for c in checks],
            "kind_free_text": "real libpika rebuilt from /repo (plain+hooks, TSan, ASan+UBSan, MPI, Debug-assert flavours), "
                              "hostile seeded workloads, hook-point schedule perturbation, ledgers/monitors/offline log "
                              "checkers as oracles",
        }],
        "checks": checks,
        "notes": "Exit codes: 0 held on everything explored, 1 VIOLATION, 2 inconclusive/harness failure (never a verdict). "
                 "Known findings: known_findings.json. Seeds via VERIF_SEED.",
        "not_applicable": na,
    }
    with open(os.path.join(VERIF, "MANIFEST.json"), "w") as f:
        json.dump(m, f, indent=1)
    print("MANIFEST.json: %d checks, %d not claimed" % (len(checks), len(na)))


NA = {}

if __name__ == "__main__":
    main()
